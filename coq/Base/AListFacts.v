(* Lemmas about the association lists of Base/AList.v.
   Maps are specified through [aget] and through [In (k,v)]; key uniqueness is
   [NoDup (akeys m)]. *)
From GV Require Import Base.AList.
From Coq Require Import Permutation Lia.

Lemma NoDup_app_single {A} (l : list A) (x : A) : NoDup l -> ~ In x l -> NoDup (l ++ [x]).
Proof.
  induction l as [|y r IH]; cbn; intros ND Hn.
  - constructor; [tauto|constructor].
  - inversion ND as [|? ? Hy ND']; subst. constructor.
    + rewrite in_app_iff. cbn. intros [H|[H|[]]]; [tauto|subst; tauto].
    + apply IH; tauto.
Qed.

Lemma filter_length_le {A} (p : A -> bool) (l : list A) : length (filter p l) <= length l.
Proof. induction l as [|x r IH]; cbn; [lia|]. destruct (p x); cbn; lia. Qed.

Section Facts.
  Context {V : Type}.
  Implicit Types (m : list (N * V)) (k : N) (v : V).

  (* ---------------------------------------------------------------- aget *)
  Lemma aget_In m k v : aget m k = Some v -> In (k, v) m.
  Proof.
    induction m as [|[k' v'] r IH]; cbn; [discriminate|].
    destruct (N.eqb_spec k' k) as [->|Hne]; intros H.
    - inversion H; subst; auto.
    - right; auto.
  Qed.

  Lemma aget_In_keys m k v : aget m k = Some v -> In k (akeys m).
  Proof. intros H. apply aget_In in H. unfold akeys. change k with (fst (k, v)). apply in_map, H. Qed.

  Lemma aget_None_iff m k : aget m k = None <-> ~ In k (akeys m).
  Proof.
    induction m as [|[k' v'] r IH]; cbn; [tauto|].
    destruct (N.eqb_spec k' k) as [->|Hne].
    - split; [discriminate|intros H; exfalso; apply H; auto].
    - rewrite IH. split; intros H; [intros [E|E]; [congruence|tauto]|tauto].
  Qed.

  Lemma aget_Some_keys m k : In k (akeys m) <-> exists v, aget m k = Some v.
  Proof.
    split.
    - intros H. destruct (aget m k) as [v|] eqn:E; [eauto|]. apply aget_None_iff in E. tauto.
    - intros [v H]. eapply aget_In_keys, H.
  Qed.

  Lemma In_keys m k v : In (k, v) m -> In k (akeys m).
  Proof. intros H. unfold akeys. change k with (fst (k, v)). apply in_map, H. Qed.

  Lemma In_aget m k v : NoDup (akeys m) -> In (k, v) m -> aget m k = Some v.
  Proof.
    induction m as [|[k' v'] r IH]; cbn; [tauto|].
    intros ND [H|H].
    - inversion H; subst. rewrite N.eqb_refl. reflexivity.
    - inversion ND as [|? ? Hn ND']; subst.
      destruct (N.eqb_spec k' k) as [->|Hne]; [exfalso; apply Hn; eapply In_keys, H|auto].
  Qed.

  Lemma aget_iff_In m k v : NoDup (akeys m) -> (aget m k = Some v <-> In (k, v) m).
  Proof. intros ND; split; [apply aget_In|apply In_aget, ND]. Qed.

  (* ---------------------------------------------------------------- aset *)
  Lemma aget_aset m k v k' : aget (aset m k v) k' = if N.eqb k k' then Some v else aget m k'.
  Proof.
    induction m as [|[k0 v0] r IH]; cbn.
    - reflexivity.
    - destruct (N.eqb_spec k0 k) as [->|Hne]; cbn.
      + destruct (N.eqb_spec k k'); reflexivity.
      + rewrite IH. destruct (N.eqb_spec k0 k'), (N.eqb_spec k k'); congruence.
  Qed.

  Lemma aget_aset_eq m k v : aget (aset m k v) k = Some v.
  Proof. rewrite aget_aset, N.eqb_refl. reflexivity. Qed.

  Lemma aget_aset_neq m k v k' : k <> k' -> aget (aset m k v) k' = aget m k'.
  Proof. intros H. rewrite aget_aset. destruct (N.eqb_spec k k'); congruence. Qed.

  Lemma akeys_aset_absent m k v : aget m k = None -> aset m k v = m ++ [(k, v)].
  Proof.
    induction m as [|[k0 v0] r IH]; cbn; [reflexivity|].
    destruct (N.eqb_spec k0 k); [discriminate|]. intros H. rewrite IH; auto.
  Qed.

  Lemma akeys_aset_present m k v : In k (akeys m) -> akeys (aset m k v) = akeys m.
  Proof.
    induction m as [|[k0 v0] r IH]; cbn; [tauto|].
    destruct (N.eqb_spec k0 k) as [->|Hne]; cbn; [reflexivity|].
    intros [H|H]; [congruence|]. f_equal. apply IH; auto.
  Qed.

  Lemma In_akeys_aset m k v k' : In k' (akeys (aset m k v)) <-> k' = k \/ In k' (akeys m).
  Proof.
    rewrite !aget_Some_keys. setoid_rewrite aget_aset.
    destruct (N.eqb_spec k k') as [->|Hne].
    - split; eauto.
    - split; [intros [x H]; eauto|intros [E|H]; [congruence|auto]].
  Qed.

  Lemma NoDup_akeys_aset m k v : NoDup (akeys m) -> NoDup (akeys (aset m k v)).
  Proof.
    intros ND. destruct (aget m k) as [x|] eqn:E.
    - rewrite akeys_aset_present; [auto|eapply aget_In_keys, E].
    - rewrite akeys_aset_absent by auto. unfold akeys. rewrite map_app. cbn.
      apply NoDup_app_single; auto. apply aget_None_iff, E.
  Qed.

  Lemma length_aset_absent m k v : aget m k = None -> length (aset m k v) = S (length m).
  Proof. intros H. rewrite akeys_aset_absent by auto. rewrite app_length. cbn. lia. Qed.

  Lemma length_aset_present m k v : In k (akeys m) -> length (aset m k v) = length m.
  Proof.
    intros H. apply akeys_aset_present with (v := v) in H. unfold akeys in H.
    apply (f_equal (@length _)) in H. rewrite !map_length in H. exact H.
  Qed.

  (* ---------------------------------------------------------------- adel *)
  Lemma aget_adel m k k' : aget (adel m k) k' = if N.eqb k k' then None else aget m k'.
  Proof.
    induction m as [|[k0 v0] r IH]; cbn.
    - destruct (N.eqb k k'); reflexivity.
    - destruct (N.eqb_spec k0 k) as [->|Hne]; cbn.
      + rewrite IH. destruct (N.eqb_spec k k'); reflexivity.
      + rewrite IH. destruct (N.eqb_spec k0 k'), (N.eqb_spec k k'); congruence.
  Qed.

  Lemma aget_adel_eq m k : aget (adel m k) k = None.
  Proof. rewrite aget_adel, N.eqb_refl. reflexivity. Qed.

  Lemma aget_adel_neq m k k' : k <> k' -> aget (adel m k) k' = aget m k'.
  Proof. intros H. rewrite aget_adel. destruct (N.eqb_spec k k'); congruence. Qed.

  Lemma adel_absent m k : aget m k = None -> adel m k = m.
  Proof.
    induction m as [|[k0 v0] r IH]; cbn; [reflexivity|].
    destruct (N.eqb_spec k0 k); [discriminate|]. intros H. rewrite IH; auto.
  Qed.

  Lemma adel_filter m k : adel m k = filter (fun kv => negb (N.eqb (fst kv) k)) m.
  Proof.
    induction m as [|[k0 v0] r IH]; cbn; [reflexivity|].
    destruct (N.eqb k0 k); cbn; rewrite IH; reflexivity.
  Qed.

  Lemma In_adel m k k' v' : In (k', v') (adel m k) <-> k' <> k /\ In (k', v') m.
  Proof.
    rewrite adel_filter, filter_In. cbn. destruct (N.eqb_spec k' k); cbn; intuition congruence.
  Qed.

  Lemma In_akeys_adel m k k' : In k' (akeys (adel m k)) <-> k' <> k /\ In k' (akeys m).
  Proof.
    rewrite !aget_Some_keys. setoid_rewrite aget_adel.
    destruct (N.eqb_spec k k') as [->|Hne].
    - split; [intros [x H]; discriminate|intros [H _]; congruence].
    - split; [intros [x H]; split; eauto|intros [_ H]; auto].
  Qed.

  Lemma NoDup_map_filter {A B} (f : A -> B) (p : A -> bool) (l : list A) :
    NoDup (map f l) -> NoDup (map f (filter p l)).
  Proof.
    induction l as [|x r IH]; cbn; [auto|].
    intros ND. inversion ND as [|? ? Hn ND']; subst.
    destruct (p x); cbn; auto. constructor; auto.
    intros H. apply Hn. apply in_map_iff in H. destruct H as [y [E Hy]].
    apply filter_In in Hy. apply in_map_iff. exists y. tauto.
  Qed.

  Lemma NoDup_akeys_filter m (p : N * V -> bool) : NoDup (akeys m) -> NoDup (akeys (filter p m)).
  Proof. apply NoDup_map_filter. Qed.

  Lemma NoDup_akeys_adel m k : NoDup (akeys m) -> NoDup (akeys (adel m k)).
  Proof. rewrite adel_filter. apply NoDup_akeys_filter. Qed.

  Lemma length_adel_le m k : length (adel m k) <= length m.
  Proof. rewrite adel_filter. apply filter_length_le. Qed.

  (* filter through aget *)
  Lemma aget_filter_Some m (p : N * V -> bool) k v :
    NoDup (akeys m) -> (aget (filter p m) k = Some v <-> aget m k = Some v /\ p (k, v) = true).
  Proof.
    intros ND. rewrite !aget_iff_In by auto using NoDup_akeys_filter. rewrite filter_In. tauto.
  Qed.

  (* ---------------------------------------------------------------- counting *)
  Definition acount (p : V -> bool) m : nat := length (filter (fun kv => p (snd kv)) m).

  Definition b2n (b : bool) : nat := if b then 1 else 0.

  Lemma acount_nil p : acount p [] = 0.
  Proof. reflexivity. Qed.

  Lemma acount_app p m1 m2 : acount p (m1 ++ m2) = acount p m1 + acount p m2.
  Proof. unfold acount. rewrite filter_app, app_length. reflexivity. Qed.

  Lemma acount_le_length p m : acount p m <= length m.
  Proof. apply filter_length_le. Qed.

  Lemma acount_aset_absent p m k v : aget m k = None -> acount p (aset m k v) = acount p m + b2n (p v).
  Proof.
    intros H. rewrite akeys_aset_absent by auto. rewrite acount_app. unfold acount at 2. cbn.
    destruct (p v); reflexivity.
  Qed.

  Lemma acount_aset_present p m k v old :
    NoDup (akeys m) -> aget m k = Some old ->
    acount p (aset m k v) + b2n (p old) = acount p m + b2n (p v).
  Proof.
    induction m as [|[k0 v0] r IH]; cbn; [discriminate|].
    intros ND. inversion ND as [|? ? Hn ND']; subst.
    destruct (N.eqb_spec k0 k) as [->|Hne]; intros H.
    - inversion H; subst. unfold acount. cbn. destruct (p v), (p old); cbn; lia.
    - specialize (IH ND' H). unfold acount in *. cbn. destruct (p v0); cbn; lia.
  Qed.

  Lemma acount_adel_present p m k old :
    NoDup (akeys m) -> aget m k = Some old -> acount p (adel m k) + b2n (p old) = acount p m.
  Proof.
    induction m as [|[k0 v0] r IH]; cbn; [discriminate|].
    intros ND. inversion ND as [|? ? Hn ND']; subst.
    destruct (N.eqb_spec k0 k) as [->|Hne]; intros H.
    - inversion H; subst. rewrite adel_absent by (apply aget_None_iff; auto).
      unfold acount. cbn. destruct (p old); cbn; lia.
    - specialize (IH ND' H). unfold acount in *. cbn. destruct (p v0); cbn; lia.
  Qed.

  Lemma acount_pos_iff p m : 0 < acount p m <-> existsb (fun kv => p (snd kv)) m = true.
  Proof.
    unfold acount. induction m as [|x r IH]; cbn; [split; [lia|discriminate]|].
    destruct (p (snd x)); cbn; [split; [auto|lia]|exact IH].
  Qed.

  Lemma acount_pos_In p m : 0 < acount p m <-> exists k v, In (k, v) m /\ p v = true.
  Proof.
    rewrite acount_pos_iff, existsb_exists. split.
    - intros [[k v] [H1 H2]]. eauto.
    - intros [k [v [H1 H2]]]. exists (k, v). auto.
  Qed.

  (* ---------------------------------------------------------------- asort *)
  Lemma ains_perm (x : N * V) l : Permutation (ains x l) (x :: l).
  Proof.
    induction l as [|y r IH]; cbn; [auto|].
    destruct (N.leb (fst x) (fst y)); [auto|].
    eapply perm_trans; [apply perm_skip, IH|apply perm_swap].
  Qed.

  Lemma asort_perm m : Permutation (asort m) m.
  Proof.
    induction m as [|x r IH]; cbn; [auto|].
    eapply perm_trans; [apply ains_perm|apply perm_skip, IH].
  Qed.

  Lemma asort_In m kv : In kv (asort m) <-> In kv m.
  Proof. split; apply Permutation_in; [|apply Permutation_sym]; apply asort_perm. Qed.

  Lemma asort_keys_perm m : Permutation (akeys (asort m)) (akeys m).
  Proof. apply Permutation_map, asort_perm. Qed.

  Lemma asort_In_keys m k : In k (akeys (asort m)) <-> In k (akeys m).
  Proof. split; apply Permutation_in; [|apply Permutation_sym]; apply asort_keys_perm. Qed.

  Lemma asort_NoDup m : NoDup (akeys m) -> NoDup (akeys (asort m)).
  Proof. intros H. eapply Permutation_NoDup; [apply Permutation_sym, asort_keys_perm|exact H]. Qed.

  Lemma aget_asort m k : NoDup (akeys m) -> aget (asort m) k = aget m k.
  Proof.
    intros ND. destruct (aget m k) as [v|] eqn:E.
    - apply In_aget; [apply asort_NoDup, ND|]. apply asort_In, aget_In, E.
    - apply aget_None_iff. rewrite asort_In_keys. apply aget_None_iff, E.
  Qed.

  Lemma asort_length m : length (asort m) = length m.
  Proof. apply Permutation_length, asort_perm. Qed.

  Lemma existsb_perm {A} (f : A -> bool) l1 l2 : Permutation l1 l2 -> existsb f l1 = existsb f l2.
  Proof.
    intros P. destruct (existsb f l1) eqn:E1, (existsb f l2) eqn:E2; auto.
    - apply existsb_exists in E1. destruct E1 as [x [H1 H2]].
      assert (existsb f l2 = true) by (apply existsb_exists; exists x; split; [eapply Permutation_in; eauto|auto]).
      congruence.
    - apply existsb_exists in E2. destruct E2 as [x [H1 H2]].
      assert (existsb f l1 = true) by (apply existsb_exists; exists x; split; [eapply Permutation_in; [apply Permutation_sym|]; eauto|auto]).
      congruence.
  Qed.

  Lemma existsb_asort (f : N * V -> bool) m : existsb f (asort m) = existsb f m.
  Proof. apply existsb_perm, asort_perm. Qed.

  Lemma forallb_perm {A} (f : A -> bool) l1 l2 : Permutation l1 l2 -> forallb f l1 = forallb f l2.
  Proof.
    intros P. induction P; cbn; auto.
    - rewrite IHP; reflexivity.
    - destruct (f x), (f y); reflexivity.
    - congruence.
  Qed.

  Lemma forallb_asort (f : N * V -> bool) m : forallb f (asort m) = forallb f m.
  Proof. apply forallb_perm, asort_perm. Qed.

  Lemma asort_nil_iff m : asort m = [] <-> m = [].
  Proof.
    split; intros H; [|subst; reflexivity].
    apply (f_equal (@length _)) in H. rewrite asort_length in H. destruct m; [auto|discriminate].
  Qed.
End Facts.

(* maps with the same keys *)
Lemma NoDup_akeys_map_snd {V W} (f : N * V -> N * W) (m : list (N * V)) :
  (forall kv, fst (f kv) = fst kv) -> NoDup (akeys m) -> NoDup (akeys (map f m)).
Proof.
  intros Hf ND. unfold akeys in *. rewrite map_map.
  erewrite map_ext; [exact ND|]. intros a; apply Hf.
Qed.
