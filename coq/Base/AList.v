(* Association lists keyed by N, used as the model of Go maps.
   Definitions only; lemmas live in Base/AListFacts.v. *)
From Coq Require Export List ZArith NArith Bool.
Export ListNotations.

Section AList.
  Context {V : Type}.

  Fixpoint aget (m : list (N * V)) (k : N) : option V :=
    match m with
    | [] => None
    | (k', v) :: r => if N.eqb k' k then Some v else aget r k
    end.

  Definition amem (m : list (N * V)) (k : N) : bool :=
    match aget m k with Some _ => true | None => false end.

  Fixpoint adel (m : list (N * V)) (k : N) : list (N * V) :=
    match m with
    | [] => []
    | (k', v) :: r => if N.eqb k' k then adel r k else (k', v) :: adel r k
    end.

  (* m[k] = v : replace in place if present, else append *)
  Fixpoint aset (m : list (N * V)) (k : N) (v : V) : list (N * V) :=
    match m with
    | [] => [(k, v)]
    | (k', v') :: r => if N.eqb k' k then (k, v) :: r else (k', v') :: aset r k v
    end.

  Definition akeys (m : list (N * V)) : list N := map fst m.

  (* sorted by key: the canonical form used in observations *)
  Fixpoint ains (x : N * V) (l : list (N * V)) : list (N * V) :=
    match l with
    | [] => [x]
    | y :: r => if N.leb (fst x) (fst y) then x :: l else y :: ains x r
    end.

  Definition asort (m : list (N * V)) : list (N * V) := fold_right ains [] m.
End AList.
