(* Driver for the C18 engine: parses the trace written by the two Go harnesses
   (stitched by tools/eng_prober.py), builds the Coq-defined [pcase] value of
   every case and prints what the extracted functions case_acc / case_mon say
   about it.  With --coq it also prints the cases as Coq terms
   for the vm_compute cross-check.  Glue only: no property logic here. *)
exception Bad of string

let ioz s = z_of_string s

let bytes_of_tok (t : string) : n list =
  if String.length t = 0 || t.[0] <> 'x' || String.length t mod 2 <> 1 then raise (Bad ("string token: " ^ t));
  let k = (String.length t - 1) / 2 in
  List.init k (fun i -> n_of_int (int_of_string ("0x" ^ String.sub t (1 + 2 * i) 2)))

let optz (t : string) : z option = if t = "panic" then None else Some (ioz t)

(* metadata: <n> { <key> <nv> <v>* } ; returns (md, rest) *)
let rec parse_md_entries k toks =
  if k = 0 then ([], toks) else
  match toks with
  | key :: nv :: r ->
      let nv = int_of_string nv in
      let vals = List.map bytes_of_tok (take nv r) in
      if List.length vals <> nv then raise (Bad "md values");
      let (es, rest) = parse_md_entries (k - 1) (drop nv r) in
      ((bytes_of_tok key, vals) :: es, rest)
  | _ -> raise (Bad "md entry")

let parse_md toks =
  match toks with
  | n :: r -> parse_md_entries (int_of_string n) r
  | [] -> raise (Bad "md")

let parse_lobs = function
  | ["ok"; d] -> OLres (LOk (ioz d))
  | ["nf"] -> OLres LNotFound
  | ["ne"] -> OLres LNoEntry
  | ["es"] -> OLres (LParse ESyntax)
  | ["er"] -> OLres (LParse ERange)
  | ["ed"] -> OLres LDurRange
  | ["eo"] -> OLother
  | ["panic"] -> OLpanic
  | t -> raise (Bad ("latency out: " ^ String.concat " " t))

let uris_of = function
  | [a; b; c; d; e; f] ->
      { u_project = bytes_of_tok a; u_instance = bytes_of_tok b; u_instance_config = bytes_of_tok c;
        u_database = bytes_of_tok d; u_instance_name = bytes_of_tok e; u_database_name = bytes_of_tok f }
  | _ -> raise (Bad "uris")

let parse_probe_out = function
  | ["ok"; nm] -> Some (Some (bytes_of_tok nm))
  | ["err"] -> Some None
  | ["panic"] -> None
  | t -> raise (Bad ("probe out: " ^ String.concat " " t))

let parse_g (inp : string list) (out : string list) : ginput * gobs =
  match inp with
  | ["G"; p; i; d; c; bits; pt] ->
      let gi = { gi_project = bytes_of_tok p; gi_instance = bytes_of_tok i; gi_database = bytes_of_tok d;
                 gi_instance_config = bytes_of_tok c; gi_qps_bits = ioz bits; gi_probe_type = bytes_of_tok pt } in
      let go = match out with
        | ["panic"] -> GPanic
        | _ when List.length out >= 8 ->
            let u = uris_of (take 6 out) in
            (match drop 6 out with
             | iv :: pr ->
                 (match parse_probe_out pr with
                  | Some p -> GOut (u, ioz iv, p)
                  | None -> GPanic)
             | [] -> raise (Bad "G out"))
        | _ -> raise (Bad "G out") in
      (gi, go)
  | _ -> raise (Bad "G line")

type case = { c_line : int; c_kind : string; c_case : pcase option (* None: skipped by the harness *);
              c_nev : int }

(* H line (+ optional following G event) -> pcase *)
let build (inp : string list) (out : string list) (g : (string list * string list) option) : pcase option =
  match inp with
  | ["H"; "B"; b; m; r] ->
      (match out with
       | ["skip"] -> None
       | [o1; o2] -> Some (KBackoff (ioz b, ioz m, ioz r, optz o1, optz o2))
       | _ -> raise (Bad "B out"))
  | "H" :: "L" :: r ->
      let (h, r1) = parse_md r in
      let (t, r2) = parse_md r1 in
      if r2 <> [] then raise (Bad "L trailing tokens");
      Some (KLatency (h, t, parse_lobs out))
  | ["H"; "U"; p; i; d; c] ->
      Some (KUri (bytes_of_tok p, bytes_of_tok i, bytes_of_tok d, bytes_of_tok c,
                  (match out with ["panic"] -> None | _ -> Some (uris_of out))))
  | ["H"; "I"; bits] ->
      (match out with [o] -> Some (KInterval (ioz bits, optz o)) | _ -> raise (Bad "I out"))
  | ["H"; "T"; t] -> Some (KProbe (bytes_of_tok t, parse_probe_out out))
  | ["H"; "P"; size] ->
      (match out with
       | ["panic"] | ["err"] -> Some (KPayload (ioz size, None))
       | [p; h; o] -> Some (KPayload (ioz size, Some ((bytes_of_tok p, bytes_of_tok h), bytes_of_tok o)))
       | _ -> raise (Bad "P out"))
  | ["H"; "K"] ->
      (match out with
       | [k; p; b; m] -> Some (KConsts (bytes_of_tok k, bytes_of_tok p, ioz b, ioz m))
       | _ -> raise (Bad "K out"))
  | ["H"; "F"; p; op; i; d; c; _; _; _; pt] ->
      let gg = match g with None -> None | Some (gi, go) -> Some (parse_g gi go) in
      (match out with
       | ["X"] ->
           Some (KFlags (mk_flags (bytes_of_tok p) (bytes_of_tok op) (bytes_of_tok i) (bytes_of_tok d)
                           (bytes_of_tok c) Z0 Z0 Z0 (bytes_of_tok pt), Z0, FRefused, gg))
       | ["panic"] ->
           Some (KFlags (mk_flags (bytes_of_tok p) (bytes_of_tok op) (bytes_of_tok i) (bytes_of_tok d)
                           (bytes_of_tok c) Z0 Z0 Z0 (bytes_of_tok pt), Z0, FPanic, gg))
       | [bits; nr; ps; nerr; mask] ->
           Some (KFlags (mk_flags (bytes_of_tok p) (bytes_of_tok op) (bytes_of_tok i) (bytes_of_tok d)
                           (bytes_of_tok c) (ioz bits) (ioz nr) (ioz ps) (bytes_of_tok pt),
                         ioz bits, FErrs (ioz nerr, ioz mask), gg))
       | _ -> raise (Bad "F out"))
  | _ -> raise (Bad ("case: " ^ String.concat " " (take 3 inp)))

let class_name = function
  | DBackoff -> "backoff" | DLatency -> "latency" | DUri -> "uri" | DInterval -> "interval"
  | DProbeType -> "probe-type" | DPayload -> "payload" | DConsts -> "consts" | DFlags -> "flags"
  | DDerive -> "derive"

let fields line =
  match split_on ";" (tokens line) with
  | [a; b; _] -> (a, b)
  | [a; b] -> (a, b)
  | _ -> raise (Bad "fields")

(* Streams the trace: calls [f] on every case as soon as it is read (a thorough
   run writes hundreds of megabytes); [f] returns false to stop reading. *)
let iter_file path (f : case -> bool) : unit =
  let ic = open_in path in
  let lineno = ref 0 in
  let pending = ref None in
  let next_line () =
    match !pending with
    | Some l -> pending := None; Some l
    | None -> (match input_line ic with
               | l -> incr lineno; Some l
               | exception End_of_file -> None) in
  let continue = ref true in
  while !continue do
    match next_line () with
    | None -> continue := false
    | Some line ->
        if String.length line > 1 && line.[0] = 'H' && line.[1] = ' ' then begin
          let ln = !lineno in
          let fail m = raise (Bad (Printf.sprintf "line %d: %s" ln m)) in
          let (inp, o) = (try fields line with Bad m -> fail m) in
          let g =
            match next_line () with
            | Some l2 when String.length l2 > 1 && l2.[0] = 'G' && l2.[1] = ' ' ->
                Some (try fields l2 with Bad m -> fail m)
            | Some l2 -> pending := Some l2; None
            | None -> None in
          let kind = (match inp with _ :: k :: _ -> k | _ -> "?") in
          let c = (try build inp o g with Bad m -> fail m | Failure m -> fail m) in
          if not (f { c_line = ln; c_kind = kind; c_case = c; c_nev = (if g = None then 0 else 1) }) then
            continue := false
        end
  done;
  close_in ic

(* ---- Coq term printers ---- *)
let cz x = "(" ^ string_of_z x ^ ")"
let cbytes (b : n list) = "[" ^ String.concat ";" (List.map (fun x -> string_of_int (int_of_n x)) b) ^ "]%N"
let clist f l = "[" ^ String.concat "; " (List.map f l) ^ "]"
let copt f = function None -> "None" | Some x -> "(Some " ^ f x ^ ")"
let cmd (m : (n list * n list list) list) = clist (fun (k, v) -> "(" ^ cbytes k ^ ", " ^ clist cbytes v ^ ")") m
let curis u = Printf.sprintf "(mkUris %s %s %s %s %s %s)" (cbytes u.u_project) (cbytes u.u_instance)
    (cbytes u.u_instance_config) (cbytes u.u_database) (cbytes u.u_instance_name) (cbytes u.u_database_name)
let clres = function
  | LOk d -> "(LOk " ^ cz d ^ ")" | LNotFound -> "LNotFound" | LNoEntry -> "LNoEntry"
  | LParse ESyntax -> "(LParse ESyntax)" | LParse ERange -> "(LParse ERange)" | LDurRange -> "LDurRange"
let clobs = function OLpanic -> "OLpanic" | OLother -> "OLother" | OLres r -> "(OLres " ^ clres r ^ ")"
let cgin g = Printf.sprintf "(mkGin %s %s %s %s %s %s)" (cbytes g.gi_project) (cbytes g.gi_instance)
    (cbytes g.gi_database) (cbytes g.gi_instance_config) (cz g.gi_qps_bits) (cbytes g.gi_probe_type)
let cgobs = function
  | GPanic -> "GPanic"
  | GOut (u, i, p) -> Printf.sprintf "(GOut %s %s %s)" (curis u) (cz i) (copt cbytes p)
let cfobs = function
  | FRefused -> "FRefused" | FPanic -> "FPanic"
  | FErrs (a, b) -> Printf.sprintf "(FErrs %s %s)" (cz a) (cz b)

let ccase (k : pcase) : string =
  match k with
  | KBackoff (b, m, r, o1, o2) -> Printf.sprintf "KBackoff %s %s %s %s %s" (cz b) (cz m) (cz r) (copt cz o1) (copt cz o2)
  | KLatency (h, t, o) -> Printf.sprintf "KLatency %s %s %s" (cmd h) (cmd t) (clobs o)
  | KUri (p, i, d, c, o) -> Printf.sprintf "KUri %s %s %s %s %s" (cbytes p) (cbytes i) (cbytes d) (cbytes c) (copt curis o)
  | KInterval (b, o) -> Printf.sprintf "KInterval %s %s" (cz b) (copt cz o)
  | KProbe (t, o) -> Printf.sprintf "KProbe %s %s" (cbytes t) (copt (copt cbytes) o)
  | KPayload (s, o) ->
      Printf.sprintf "KPayload %s %s" (cz s)
        (copt (fun ((p, h), orc) -> "(" ^ cbytes p ^ ", " ^ cbytes h ^ ", " ^ cbytes orc ^ ")") o)
  | KConsts (k, p, b, m) -> Printf.sprintf "KConsts %s %s %s %s" (cbytes k) (cbytes p) (cz b) (cz m)
  | KFlags (f, qb, o, g) ->
      Printf.sprintf "KFlags (mk_flags %s %s %s %s %s %s %s %s %s) %s %s %s"
        (cbytes f.fl_project) (cbytes f.fl_ops_project) (cbytes f.fl_instance) (cbytes f.fl_database)
        (cbytes f.fl_instance_config) (cz qb) (cz f.fl_num_rows) (cz f.fl_payload_size) (cbytes f.fl_probe_type)
        (cz qb) (cfobs o) (copt (fun (gi, go) -> "(" ^ cgin gi ^ ", " ^ cgobs go ^ ")") g)

let b2i b = if b then 1 else 0

let () =
  let path = Sys.argv.(1) in
  let coq_out = if Array.length Sys.argv > 3 && Sys.argv.(2) = "--coq" then Some (open_out Sys.argv.(3)) else None in
  let coq_max = if Array.length Sys.argv > 4 then int_of_string Sys.argv.(4) else 100 in
  (* stratified sample for the Coq cross-check: the same quota for each of the
     seven kinds that occur more than once (B L U I T P F; K occurs once) *)
  let quota = Hashtbl.create 8 in
  let per_kind = (coq_max + 6) / 7 in
  let coq_cases = ref [] in
  let n_coq = ref 0 in
  let i = ref (-1) in
  (try
    iter_file path (fun c ->
      incr i;
      let i = !i in
      (match c.c_case with
       | None ->
           if coq_out = None then
             Printf.printf "hist %d line %d nev %d acc ok m:c18 1 -1 f:skipped 1\n" i c.c_line c.c_nev
       | Some k ->
           if coq_out = None then begin
             let acc = case_acc k in
             let mon = case_mon k in
             let idx = int_of_z (case_mon_idx k) in
             Printf.printf "hist %d line %d nev %d acc %s m:c18 %d %d f:skipped 0\n" i c.c_line c.c_nev
               (match acc with None -> "ok" | Some (e, cl) -> Printf.sprintf "div %d %s" (min (int_of_nat e) c.c_nev) (class_name cl))
               (b2i mon) (if mon then -1 else idx)
           end else begin
             let used = (try Hashtbl.find quota c.c_kind with Not_found -> 0) in
             let small = (match k with KPayload (s, _) -> int_of_z s <= 200 | _ -> true) in
             if used < per_kind && small && !n_coq < coq_max then begin
               Hashtbl.replace quota c.c_kind (used + 1);
               incr n_coq;
               coq_cases := (i, k, (case_acc k = None, case_mon k)) :: !coq_cases
             end
           end);
      (* with --coq only the sample is needed: stop once it is complete *)
      coq_out = None || !n_coq < coq_max)
  with Bad m -> prerr_endline ("prober_driver: " ^ m); exit 2);
  match coq_out with
  | None -> ()
  | Some oc ->
      output_string oc "From Coq Require Import ZArith NArith List Bool.\nFrom GV Require Import Prober.F64 Prober.Model Prober.Monitors.\nImport ListNotations.\nOpen Scope Z_scope.\n";
      output_string oc "Definition case_ok (k : pcase) (acc mon : bool) : bool := verdict_eqb (case_verdict k) (acc, mon).\n";
      let cs = List.rev !coq_cases in
      List.iteri (fun j (_, k, (a, m)) ->
        Printf.fprintf oc "Definition case_%d : bool := case_ok (%s) %b %b.\n" j (ccase k) a m) cs;
      Printf.fprintf oc "Definition all_cases : list bool := %s.\n"
        (clist (fun j -> "case_" ^ string_of_int j) (List.init (List.length cs) (fun j -> j)));
      Printf.fprintf oc "Definition case_ids : list nat := %s.\n"
        (clist (fun (i, _, _) -> string_of_int i ^ "%nat") cs);
      output_string oc "Definition mismatches : list nat := Eval vm_compute in\n  map fst (filter (fun p => negb (snd p)) (combine case_ids all_cases)).\nPrint mismatches.\n";
      close_out oc
