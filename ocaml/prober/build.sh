#!/bin/sh
# builds the C18 (Spanner prober helpers) driver from the extracted model; run from anywhere
set -e
cd "$(dirname "$0")"
coqc -Q ../../coq GV ../../coq/Extract/ExtractPROBER.v >/dev/null
( echo "open Prober_model"; cat ../common/conv.ml prober_driver_body.ml ) > prober_driver.ml
ocamlfind ocamlopt -O2 -w -a prober_model.mli prober_model.ml prober_driver.ml -o prober_driver 2>/dev/null || \
ocamlfind ocamlopt -w -a prober_model.mli prober_model.ml prober_driver.ml -o prober_driver
