#!/bin/sh
# builds the engine-C driver from the extracted model (GME + ME); run from anywhere
set -e
cd "$(dirname "$0")"
coqc -Q ../../coq GV ../../coq/Extract/ExtractGME.v >/dev/null
( echo "open Gme_model"; cat ../common/conv.ml gme_driver_body.ml ) > gme_driver.ml
ocamlfind ocamlopt -O2 -w -a gme_model.mli gme_model.ml gme_driver.ml -o gme_driver 2>/dev/null || \
ocamlfind ocamlopt -w -a gme_model.mli gme_model.ml gme_driver.ml -o gme_driver
