(* Driver for engine C (GCPMultiEndpoint): parses trace files written by the Go
   harness, runs the extracted acceptor and the monitors C15_ok / C16_ok on
   them, prints one verdict line per history.  With --coq it also prints the
   traces as Coq terms for the in-Coq cross-check. *)
exception Bad of string

let ioz s = z_of_string s
(* names / endpoints / dial numbers; the harness prints negative numbers for
   "unknown": map them to values no model number equals *)
let ion s = let i = int_of_string s in if i < 0 then n_of_int (1000000 - i) else n_of_int i

let rec take_n k l = if k = 0 then ([], l) else
  match l with x :: r -> let (a, b) = take_n (k - 1) r in (x :: a, b) | [] -> raise (Bad "short")

let parse_opts (t : string list) : gopts * n list =
  match t with
  | d :: nm :: r ->
      let rec mes k l = if k = 0 then ([], l) else
        match l with
        | name :: "N" :: r' -> let (ms, rest) = mes (k - 1) r' in ((ion name, None) :: ms, rest)
        | name :: "L" :: rr :: dd :: cnt :: r' ->
            let (eps, r'') = take_n (int_of_string cnt) r' in
            let (ms, rest) = mes (k - 1) r'' in
            ((ion name, Some { mo_eps = List.map ion eps; mo_r = ioz rr; mo_d = ioz dd }) :: ms, rest)
        | _ -> raise (Bad "opts me") in
      let (ms, rest) = mes (int_of_string nm) r in
      (match rest with
       | "F" :: nf :: r' ->
           let (fs, r'') = take_n (int_of_string nf) r' in
           if r'' <> [] then raise (Bad "opts tail");
           ({ go_default = ion d; go_mes = ms }, List.map ion fs)
       | _ -> raise (Bad "opts F"))
  | _ -> raise (Bad "opts")

(* E code D n {ep ok}*n R call W ms [V code D n {ep ok}*n]   (V...: second update of a UC line) *)
(* dial codes: 0 failed, 1 succeeded, 2 succeeded and the ClientConn was READY when DialFunc returned *)
let ready_of_dials : (string list) -> n list =
  let rec go = function a :: b :: r -> if b = "2" then ion a :: go r else go r | _ -> [] in go

let last_readys : (n list * n list) ref = ref ([], [])

let parse_outs (t : string list) : gout * gout option =
  let rec pairs = function a :: b :: r -> (ion a, b <> "0") :: pairs r | _ -> [] in
  match t with
  | "E" :: c :: "D" :: n :: r ->
      let (ds, rest) = take_n (2 * int_of_string n) r in
      let o1 call = { og_err = ioz c; og_dials = pairs ds; og_call = ioz call } in
      last_readys := (ready_of_dials ds, []);
      (match rest with
       | "R" :: call :: "W" :: _ :: [] -> (o1 call, None)
       | "R" :: call :: "W" :: _ :: "V" :: c2 :: "D" :: n2 :: r2 ->
           let (ds2, rest2) = take_n (2 * int_of_string n2) r2 in
           if rest2 <> [] then raise (Bad "outs tail 2");
           last_readys := (ready_of_dials ds, ready_of_dials ds2);
           (o1 call, Some { og_err = ioz c2; og_dials = pairs ds2; og_call = z_of_int 0 })
       | _ -> raise (Bad "outs tail"))
  | _ -> raise (Bad ("outs: " ^ String.concat " " t))

let parse_ctx s = if s = "-" then None else Some (ion s)

let parse_obs (t : string list) : gobs =
  match t with
  | "M" :: nm :: r ->
      let rec mes k l = if k = 0 then ([], l) else
        match l with
        | name :: cur :: cnt :: r' ->
            let (es, r'') = take_n (4 * int_of_string cnt) r' in
            let rec eps = function
              | id :: p :: st :: tm :: r -> { oe_id = ion id; oe_prio = ioz p; oe_st = ioz st; oe_tmr = ioz tm } :: eps r
              | _ -> [] in
            let (ms, rest) = mes (k - 1) r'' in
            ({ om_name = ion name; om_cur = ion cur; om_eps = eps es } :: ms, rest)
        | _ -> raise (Bad "obs me") in
      let (ms, rest) = mes (int_of_string nm) r in
      (match rest with
       | "Q" :: np :: r1 ->
           let (ps, r2) = take_n (4 * int_of_string np) r1 in
           let rec pools = function
             | e :: id :: o :: rd :: r -> { op_ep = ion e; op_id = ion id; op_open = o <> "0"; op_ready = rd <> "0" } :: pools r
             | _ -> [] in
           (match r2 with
            | "DEF" :: d :: "RT" :: nr :: r3 ->
                let rec routes k l = if k = 0 then ([], l) else
                  match l with
                  | c :: "P" :: r' -> let (rs, rest) = routes (k - 1) r' in ((parse_ctx c, RPanic) :: rs, rest)
                  | c :: e :: id :: o :: r' ->
                      let (rs, rest) = routes (k - 1) r' in ((parse_ctx c, RPool (ion e, ion id, o <> "0")) :: rs, rest)
                  | _ -> raise (Bad "obs route") in
                let (rs, r4) = routes (int_of_string nr) r3 in
                (match r4 with
                 | "O" :: no :: r5 ->
                     let (os, r6) = take_n (int_of_string no) r5 in
                     (match r6 with
                      | ["G"; g] -> { ob_mes = ms; ob_pools = pools ps; ob_default = ion d; ob_routes = rs;
                                      ob_open = List.map ion os; ob_census = ioz g }
                      | _ -> raise (Bad "obs G"))
                 | _ -> raise (Bad "obs O"))
            | _ -> raise (Bad "obs DEF"))
       | _ -> raise (Bad "obs Q"))
  | _ -> raise (Bad "obs")

let parse_op (t : string list) (out : gout) : gop =
  match t with
  | ("H" | "U" | "UR") :: r ->
      let (o, fails) = parse_opts r in
      (* dial order oracle and READY-at-dial set: read from the dial log *)
      GUpdate (o, fails, List.map fst out.og_dials, fst !last_readys)
  | "UB" :: r ->
      (* an update with a blocked dial and a flap of endpoint e meanwhile: for the model an
         ordinary update (the readiness of e is the same before and after; the harness
         writes the line when the monitors are quiescent, then a P line) *)
      let rec split acc = function
        | ["K"; _] -> List.rev acc
        | x :: r' -> split (x :: acc) r'
        | [] -> raise (Bad "UB without K") in
      let (o, fails) = parse_opts (split [] r) in
      GUpdate (o, fails, List.map fst out.og_dials, fst !last_readys)
  | ["TB"; n; k] -> GTick (ion n, OpBegin (nat_of_int (int_of_string k)))
  | ["TE"; n; k] -> GTick (ion n, OpEnd (nat_of_int (int_of_string k)))
  | ["SU"; e] -> GMark (true, ion e)
  | ["SD"; e] -> GMark (false, ion e)
  | ["P"; e; b] -> GReady (ion e, b <> "0")
  | ["X"; c] -> GCall (parse_ctx c)
  | ["C"] -> GClose
  | _ -> raise (Bad ("op: " ^ String.concat " " t))

(* h_model: the model state after the events read so far (None: no object), only used to
   supply the UNOBSERVABLE observation between the two updates of a UC line *)
type hist = { h_line : int; mutable h_events : gevent list; mutable h_model : gst option }

let split_bar (t : string list) : string list * string list =
  let rec go acc = function
    | "|" :: r -> (List.rev acc, r)
    | x :: r -> go (x :: acc) r
    | [] -> raise (Bad "UC without |") in
  go [] t

let advance (h : hist) (ev : gevent) =
  h.h_events <- ev :: h.h_events;
  h.h_model <- (match h.h_model with Some st -> Some (fst (gstep st ev.ge_op)) | None -> None)

let parse_file path : hist list =
  let hs = ref [] in
  List.iteri (fun i line ->
    if String.length line > 0 && line.[0] <> '#' then begin
      match split_on ";" (tokens line) with
      | [opt; outt; obst] ->
          let (out, out2) = parse_outs outt in
          let obs = parse_obs obst in
          (match opt, out2 with
           | "H" :: _, _ ->
               let ev = { ge_op = parse_op opt out; ge_out = out; ge_obs = obs } in
               let st = (match ev.ge_op with
                         | GUpdate (o, f, orc, rd) ->
                             let (s1, mo) = gupdate (ginit o) o f orc rd in
                             if mo.og_err = Z0 then Some s1 else None
                         | _ -> None) in
               hs := { h_line = i + 1; h_events = [ev]; h_model = st } :: !hs
           | ["TA"; dt], _ ->
               (* the one virtual clock advances: a clock step of every MultiEndpoint (nothing
                  observable changes, every step carries the same observation) *)
               (match !hs with
                | h :: _ ->
                    List.iter (fun m ->
                      advance h { ge_op = GTick (m.om_name, OpAdvance (ioz dt)); ge_out = out; ge_obs = obs })
                      obs.ob_mes
                | [] -> raise (Bad "event before H"))
           | "UC" :: r, Some o2 ->
               (* two updates, expected to take effect in sequence.  The observation between
                  them does not exist in the implementation (update 2 waits for gme.mu while
                  update 1 runs): the event of update 1 carries the model's observation *)
               (match !hs with
                | h :: _ ->
                    let (t1, t2) = split_bar r in
                    let (op1, f1) = parse_opts t1 and (op2, f2) = parse_opts t2 in
                    let g1 = GUpdate (op1, f1, List.map fst out.og_dials, fst !last_readys) in
                    let mid = (match h.h_model with
                               | Some st -> gobs_norm (gobserve (fst (gstep st g1)))
                               | None -> obs) in
                    advance h { ge_op = g1; ge_out = out; ge_obs = mid };
                    advance h { ge_op = GUpdate (op2, f2, List.map fst o2.og_dials, snd !last_readys); ge_out = o2; ge_obs = obs }
                | [] -> raise (Bad "event before H"))
           | _ ->
               let ev = { ge_op = parse_op opt out; ge_out = out; ge_obs = obs } in
               (match !hs with
                | h :: _ -> advance h ev
                | [] -> raise (Bad "event before H")))
      | _ -> raise (Bad ("line " ^ string_of_int (i + 1)))
    end) (read_lines path);
  List.rev_map (fun h -> h.h_events <- List.rev h.h_events; h) !hs

let class_name = function
  | DErr -> "error" | DDial -> "dial" | DCall -> "call" | DMes -> "mes" | DPools -> "pools"
  | DDefault -> "default" | DRoute -> "route" | DOpen -> "open" | DCensus -> "census" | DBadOp -> "badop"

let first_fail (ok : gevent list -> bool) (evs : gevent list) : int =
  let n = List.length evs in
  let rec go k = if k > n then n else if not (ok (take k evs)) then k - 1 else go (k + 1) in
  go 0

(* ---- Coq term printers ---- *)
let cz x = "(" ^ string_of_z x ^ ")%Z"
let cn x = string_of_int (int_of_n x) ^ "%N"
let clist f l = "[" ^ String.concat "; " (List.map f l) ^ "]"
let cb b = if b then "true" else "false"
let cctx = function None -> "None" | Some x -> "(Some " ^ cn x ^ ")"
let cmeopt = function
  | None -> "None"
  | Some m -> Printf.sprintf "(Some (mkMO %s %s %s))" (clist cn m.mo_eps) (cz m.mo_r) (cz m.mo_d)
let copts o = Printf.sprintf "(mkGO %s %s)" (cn o.go_default)
    (clist (fun (n, m) -> "(" ^ cn n ^ ", " ^ cmeopt m ^ ")") o.go_mes)
let cop = function
  | GUpdate (o, f, orc, rd) -> Printf.sprintf "GUpdate %s %s %s %s" (copts o) (clist cn f) (clist cn orc) (clist cn rd)
  | GReady (e, b) -> Printf.sprintf "GReady %s %s" (cn e) (cb b)
  | GMark (b, e) -> Printf.sprintf "GMark %s %s" (cb b) (cn e)
  | GCall c -> "GCall " ^ cctx c
  | GClose -> "GClose"
  | GTick (n, OpAdvance d) -> Printf.sprintf "GTick %s (OpAdvance %s)" (cn n) (cz d)
  | GTick (n, OpBegin k) -> Printf.sprintf "GTick %s (OpBegin %d%%nat)" (cn n) (int_of_nat k)
  | GTick (n, OpEnd k) -> Printf.sprintf "GTick %s (OpEnd %d%%nat)" (cn n) (int_of_nat k)
  | GTick (_, _) -> raise (Bad "tick")
let cout o = Printf.sprintf "(mkGOut %s %s %s)" (cz o.og_err)
    (clist (fun (e, b) -> "(" ^ cn e ^ ", " ^ cb b ^ ")") o.og_dials) (cz o.og_call)
let coep e = Printf.sprintf "mkOep %s %s %s %s" (cn e.oe_id) (cz e.oe_prio) (cz e.oe_st) (cz e.oe_tmr)
let come m = Printf.sprintf "mkOme %s %s %s" (cn m.om_name) (cn m.om_cur) (clist coep m.om_eps)
let cpool p = Printf.sprintf "mkOpool %s %s %s %s" (cn p.op_ep) (cn p.op_id) (cb p.op_open) (cb p.op_ready)
let croute = function RPanic -> "RPanic" | RPool (e, i, o) -> Printf.sprintf "RPool %s %s %s" (cn e) (cn i) (cb o)
let cobs o = Printf.sprintf "(mkGobs %s %s %s %s %s %s)" (clist come o.ob_mes) (clist cpool o.ob_pools)
    (cn o.ob_default) (clist (fun (c, r) -> "(" ^ cctx c ^ ", " ^ croute r ^ ")") o.ob_routes)
    (clist cn o.ob_open) (cz o.ob_census)
let cev e = Printf.sprintf "mkGE (%s) %s %s" (cop e.ge_op) (cout e.ge_out) (cobs e.ge_obs)

let () =
  let path = Sys.argv.(1) in
  let coq_out = if Array.length Sys.argv > 3 && Sys.argv.(2) = "--coq" then Some (open_out Sys.argv.(3)) else None in
  let coq_max = if Array.length Sys.argv > 4 then int_of_string Sys.argv.(4) else 100 in
  let hs = parse_file path in
  let coq_cases = ref [] in
  List.iteri (fun i h ->
    let evs = h.h_events in
    let nev = List.length evs - 1 in
    let acc = match gaccept evs with None -> None | Some (idx, c) -> Some (int_of_nat idx, class_name c) in
    let c15 = c15_ok evs and c16 = c16_ok evs in
    let f15 = if c15 then -1 else first_fail c15_ok evs in
    let f16 = if c16 then -1 else first_fail c16_ok evs in
    let created = match evs with e :: _ -> e.ge_out.og_err = Z0 | [] -> false in
    Printf.printf "hist %d line %d nev %d acc %s m:c15 %d %d m:c16 %d %d f:created %d\n" i h.h_line nev
      (match acc with None -> "ok" | Some (k, c) -> Printf.sprintf "div %d %s" k c)
      (if c15 then 1 else 0) f15 (if c16 then 1 else 0) f16 (if created then 1 else 0);
    if coq_out <> None && List.length !coq_cases < coq_max then
      coq_cases := (evs, acc = None, c15, c16) :: !coq_cases
  ) hs;
  match coq_out with
  | None -> ()
  | Some oc ->
      output_string oc "From GV Require Import ME.Model ME.Monitors GME.Model GME.Monitors.\nOpen Scope Z_scope.\n";
      output_string oc "Definition case_ok (tr : list gevent) (acc c15 c16 : bool) : bool :=\n  Bool.eqb (match gaccept tr with None => true | Some _ => false end) acc && Bool.eqb (C15_ok tr) c15 && Bool.eqb (C16_ok tr) c16.\n";
      List.iteri (fun i (evs, acc, c15, c16) ->
        Printf.fprintf oc "Definition case_%d : bool := case_ok %s %b %b %b.\n" i (clist cev evs) acc c15 c16)
        (List.rev !coq_cases);
      Printf.fprintf oc "Definition all_cases : list bool := %s.\n"
        (clist (fun i -> "case_" ^ string_of_int i) (List.init (List.length !coq_cases) (fun i -> i)));
      output_string oc "Definition mismatches : list nat := Eval vm_compute in\n  map fst (filter (fun p => negb (snd p)) (combine (seq 0 (length all_cases)) all_cases)).\nPrint mismatches.\n";
      close_out oc
