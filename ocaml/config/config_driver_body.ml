(* Driver for engine D/Config: parses the case file written by the Go harness,
   runs the extracted comparison (accept_case), monitors (c17, c17core) and
   known-finding triggers on every case and prints one verdict line per case.
   With --coq it also prints the cases as Coq terms for the in-Coq cross-check.

   Token grammar (no spaces inside a token):
     STR    := S<hex bytes>
     CFG    := C POOL <#methods> METHOD*          OPTCFG := - | CFG
     POOL   := p0 | p1 max idle wm min fb ms calls bind          (field-number order)
     METHOD := m <#names> STR* AFF               AFF := a0 | a1 cmd STR
     JSON   := n | t | f | N<hex lexeme> | STR | A<k> JSON^k | O<k> (STR JSON)^k
     UOBS   := OPTCFG <#table> (STR cmd STR)* unresp pool
   Lines:
     H P <style> JSON        ; OPTCFG                       ; T<hex text>
     H X <class> T<hex text> ; OPTCFG                       ;
     H R CFG                 ; OPTCFG                       ; - | JSON
     H B                     ; dmin dmax dstreams           ;
       U <mode> <#addrs> <fail> [CFG] ; err attempts created updaddr same ; UOBS
       Z                     ;                              ; UOBS
       S <n> <ready>         ;                              ; UOBS      n connections report Shutdown
     H G OPTCFG              ; err same fresh               ; OPTCFG OPTCFG OPTCFG OPTCFG *)
exception Bad of string

let ioz s = z_of_string s
let iob s = s <> "0"

let hex_bytes (s : string) : n list =
  let k = String.length s / 2 in
  List.init k (fun i -> n_of_int (int_of_string ("0x" ^ String.sub s (2 * i) 2)))

let str_tok (t : string) : n list =
  if String.length t >= 1 && t.[0] = 'S' then hex_bytes (String.sub t 1 (String.length t - 1))
  else raise (Bad ("string token: " ^ t))

(* every parser takes the token list and returns (value, rest) *)
let rec rep k f l = if k = 0 then ([], l) else
    let (x, l1) = f l in let (xs, l2) = rep (k - 1) f l1 in (x :: xs, l2)

let p_str = function t :: r -> (str_tok t, r) | [] -> raise (Bad "eof in string")

let p_pool = function
  | "p0" :: r -> (None, r)
  | "p1" :: mx :: it :: wm :: mn :: fb :: ms :: uc :: bs :: r ->
      (Some { max_size = ioz mx; idle_timeout = ioz it; low_watermark = ioz wm; min_size = ioz mn;
              fallback_to_ready = iob fb; unresp_ms = ioz ms; unresp_calls = ioz uc; bind_strategy = ioz bs }, r)
  | _ -> raise (Bad "pool")

let p_aff = function
  | "a0" :: r -> (None, r)
  | "a1" :: c :: k :: r -> (Some { command = ioz c; affinity_key = str_tok k }, r)
  | _ -> raise (Bad "affinity")

let p_method = function
  | "m" :: k :: r ->
      let (ns, r1) = rep (int_of_string k) p_str r in
      let (a, r2) = p_aff r1 in
      ({ names = ns; affinity0 = a }, r2)
  | _ -> raise (Bad "method")

let p_cfg = function
  | "C" :: r ->
      let (p, r1) = p_pool r in
      (match r1 with
       | k :: r2 -> let (ms, r3) = rep (int_of_string k) p_method r2 in ({ channel_pool = p; methods = ms }, r3)
       | [] -> raise (Bad "cfg"))
  | t :: _ -> raise (Bad ("cfg: " ^ t))
  | [] -> raise (Bad "cfg: eof")

let p_optcfg = function
  | "-" :: r -> (None, r)
  | l -> let (c, r) = p_cfg l in (Some c, r)

let rec p_json = function
  | "n" :: r -> (JNull, r)
  | "t" :: r -> (JBool true, r)
  | "f" :: r -> (JBool false, r)
  | t :: r when String.length t >= 1 && t.[0] = 'N' -> (JNum (hex_bytes (String.sub t 1 (String.length t - 1))), r)
  | t :: r when String.length t >= 1 && t.[0] = 'S' -> (JStr (str_tok t), r)
  | t :: r when String.length t >= 2 && t.[0] = 'A' ->
      let (xs, r1) = rep (int_of_string (String.sub t 1 (String.length t - 1))) p_json r in (JArr xs, r1)
  | t :: r when String.length t >= 2 && t.[0] = 'O' ->
      let (xs, r1) = rep (int_of_string (String.sub t 1 (String.length t - 1)))
          (fun l -> let (k, l1) = p_str l in let (v, l2) = p_json l1 in ((k, v), l2)) r in
      (JObj xs, r1)
  | t :: _ -> raise (Bad ("json: " ^ t))
  | [] -> raise (Bad "json: eof")

let p_uobs l =
  let (c, r) = p_optcfg l in
  match r with
  | k :: r1 ->
      let (tb, r2) = rep (int_of_string k) (function
          | key :: cmd :: ak :: r -> ((str_tok key, { command = ioz cmd; affinity_key = str_tok ak }), r)
          | _ -> raise (Bad "table row")) r1 in
      (match r2 with
       | [u; p] -> { ob_cfg = c; ob_table = tb; ob_unresp = iob u; ob_pool = ioz p }
       | _ -> raise (Bad "uobs tail"))
  | [] -> raise (Bad "uobs")

let finish name (x, rest) = if rest <> [] then raise (Bad (name ^ ": trailing tokens")) else x

let parse_event opt outt obst : event =
  match opt with
  | "U" :: mode :: naddr :: fail :: r ->
      let inc = (match mode with
          | "0" | "1" | "2" -> if r <> [] then raise (Bad "U nil with cfg") else InNil (n_of_int (int_of_string mode))
          | "4" -> InForeign
          | "3" -> InCfg (finish "U cfg" (p_cfg r))
          | _ -> raise (Bad "U mode")) in
      (* the fake ClientConn refuses to create SubConns when told to fail or when the address list is empty *)
      let refuse = iob fail || int_of_string naddr = 0 in
      (match outt with
       | [e; at; cr; ua; same] ->
           EvUpdate (inc, refuse, { uo_err = iob e; uo_attempts = ioz at; uo_created = ioz cr; uo_updaddr = ioz ua }, iob same, p_uobs obst)
       | _ -> raise (Bad "U outs"))
  | ["S"; n; _ready] -> EvShutdown (ioz n, p_uobs obst)
  | ["Z"] -> EvMutate (p_uobs obst)
  | _ -> raise (Bad ("event: " ^ String.concat " " opt))

type hist = { h_line : int; h_kind : string; mutable h_case : case; mutable h_nev : int }

let parse_file path : hist list =
  let hs = ref [] in
  List.iteri (fun i line ->
    if String.length line > 0 && line.[0] <> '#' then begin
      match split_on ";" (tokens line) with
      | [opt; outt; obst] ->
          (match opt with
           | "H" :: ("P" | "Q" as k) :: _style :: r ->
               let j = finish "P json" (p_json r) in
               hs := { h_line = i + 1; h_kind = k; h_case = CParse (j, finish "P res" (p_optcfg outt)); h_nev = 0 } :: !hs
           | ["H"; "X"; cls; _text] ->
               hs := { h_line = i + 1; h_kind = "X";
                       h_case = CMalformed (n_of_int (int_of_string cls), finish "X res" (p_optcfg outt)); h_nev = 0 } :: !hs
           | "H" :: "R" :: r ->
               let c = finish "R cfg" (p_cfg r) in
               let rendered = (match obst with ["-"] | [] -> None | l -> Some (finish "R json" (p_json l))) in
               hs := { h_line = i + 1; h_kind = "R"; h_case = CRender (c, rendered, finish "R res" (p_optcfg outt)); h_nev = 0 } :: !hs
           | ["H"; "B"] ->
               (match outt with
                | [a; b; c] -> hs := { h_line = i + 1; h_kind = "B"; h_case = CBalancer (ioz a, ioz b, ioz c, []); h_nev = 0 } :: !hs
                | _ -> raise (Bad "B consts"))
           | "H" :: "G" :: r ->
               let input = finish "G cfg" (p_optcfg r) in
               (match outt with
                | [e; same; fresh] ->
                    let (r1, l1) = p_optcfg obst in
                    let (r2, l2) = p_optcfg l1 in
                    let (r3, l3) = p_optcfg l2 in
                    let svc = finish "G svc" (p_optcfg l3) in
                    hs := { h_line = i + 1; h_kind = "G";
                            h_case = CGcp (input, { g_err = iob e; g_same = iob same; g_ret1 = r1; g_fresh = iob fresh;
                                                    g_ret2 = r2; g_ret3 = r3; g_svc = svc }); h_nev = 0 } :: !hs
                | _ -> raise (Bad "G outs"))
           | "H" :: _ -> raise (Bad ("line " ^ string_of_int (i + 1) ^ ": unknown case kind"))
           | _ ->
               (match !hs with
                | ({ h_case = CBalancer (a, b, c, evs); _ } as h) :: _ ->
                    h.h_case <- CBalancer (a, b, c, evs @ [parse_event opt outt obst]);
                    h.h_nev <- h.h_nev + 1
                | _ -> raise (Bad ("line " ^ string_of_int (i + 1) ^ ": event outside a B history"))))
      | _ -> raise (Bad ("line " ^ string_of_int (i + 1) ^ ": expected two ';'"))
    end) (read_lines path);
  List.rev !hs

let class_name = function
  | DParseAccept -> "parse-accept" | DParseValue -> "parse-value" | DMalformed -> "malformed-accepted"
  | DRender -> "render" | DConsts -> "consts" | DOutputs -> "outputs" | DEffective -> "effective"
  | DMethodTable -> "method-table" | DUnresponsive -> "unresponsive" | DSubconns -> "subconns"
  | DFixedOnce -> "fixed-once" | DAlias -> "alias" | DGcpConfig -> "gcpconfig" | DServiceConfig -> "service-config"

(* first failing event of a monitor that is a conjunction over the events of a B history *)
let first_fail (mon : case -> bool) (c : case) : int =
  match c with
  | CBalancer (a, b, d, evs) ->
      let n = List.length evs in
      let rec go k = if k > n then n - 1 else if not (mon (CBalancer (a, b, d, take k evs))) then k - 1 else go (k + 1) in
      go 0
  | _ -> -1

(* ---- Coq term printers ---- *)
let cz x = "(" ^ string_of_z x ^ ")%Z"
let cn x = string_of_int (int_of_n x) ^ "%N"
let clist f l = "[" ^ String.concat "; " (List.map f l) ^ "]"
let cstr (s : n list) = if s = [] then "(@nil N)" else clist cn s
let copt f = function None -> "None" | Some x -> "(Some " ^ f x ^ ")"
let cpool p = Printf.sprintf "(mkPool %s %s %s %s %b %s %s %s)" (cz p.max_size) (cz p.idle_timeout) (cz p.low_watermark)
    (cz p.min_size) p.fallback_to_ready (cz p.unresp_ms) (cz p.unresp_calls) (cz p.bind_strategy)
let caff a = Printf.sprintf "(mkAff %s %s)" (cz a.command) (cstr a.affinity_key)
let cmethod m = Printf.sprintf "(mkMethod %s %s)" (if m.names = [] then "(@nil str)" else clist cstr m.names) (copt caff m.affinity0)
let ccfg c = Printf.sprintf "(mkCfg %s %s)" (copt cpool c.channel_pool)
    (if c.methods = [] then "(@nil Method)" else clist cmethod c.methods)
let coptcfg = function None -> "(@None ApiConfig)" | Some c -> "(Some " ^ ccfg c ^ ")"
let rec cjson = function
  | JNull -> "JNull" | JBool v -> Printf.sprintf "(JBool %b)" v
  | JNum r -> "(JNum " ^ cstr r ^ ")" | JStr s -> "(JStr " ^ cstr s ^ ")"
  | JArr l -> "(JArr " ^ (if l = [] then "(@nil json)" else clist cjson l) ^ ")"
  | JObj l -> "(JObj " ^ (if l = [] then "(@nil (str * json))" else clist (fun (k, v) -> "(" ^ cstr k ^ ", " ^ cjson v ^ ")") l) ^ ")"
let cuobs o = Printf.sprintf "(mkUobs %s %s %b %s)" (coptcfg o.ob_cfg)
    (if o.ob_table = [] then "(@nil (str * Affinity))" else clist (fun (k, a) -> "(" ^ cstr k ^ ", " ^ caff a ^ ")") o.ob_table)
    o.ob_unresp (cz o.ob_pool)
let cinc = function
  | InNil k -> "(InNil " ^ cn k ^ ")" | InForeign -> "InForeign" | InCfg c -> "(InCfg " ^ ccfg c ^ ")"
let cev = function
  | EvUpdate (i, rf, o, same, ob) -> Printf.sprintf "(EvUpdate %s %b (mkOut %b %s %s %s) %b %s)" (cinc i) rf o.uo_err (cz o.uo_attempts) (cz o.uo_created) (cz o.uo_updaddr) same (cuobs ob)
  | EvMutate ob -> "(EvMutate " ^ cuobs ob ^ ")"
  | EvShutdown (n, ob) -> Printf.sprintf "(EvShutdown %s %s)" (cz n) (cuobs ob)
let ccase = function
  | CParse (j, r) -> Printf.sprintf "(CParse %s %s)" (cjson j) (coptcfg r)
  | CMalformed (k, r) -> Printf.sprintf "(CMalformed %s %s)" (cn k) (coptcfg r)
  | CRender (c, j, r) -> Printf.sprintf "(CRender %s %s %s)" (ccfg c) (match j with None -> "(@None json)" | Some j -> "(Some " ^ cjson j ^ ")") (coptcfg r)
  | CBalancer (a, b, c, evs) -> Printf.sprintf "(CBalancer %s %s %s %s)" (cz a) (cz b) (cz c) (if evs = [] then "(@nil event)" else clist cev evs)
  | CGcp (i, g) -> Printf.sprintf "(CGcp %s (mkGobs %b %b %s %b %s %s %s))" (coptcfg i) g.g_err g.g_same (coptcfg g.g_ret1) g.g_fresh
                     (coptcfg g.g_ret2) (coptcfg g.g_ret3) (coptcfg g.g_svc)

let () =
  let path = Sys.argv.(1) in
  let coq_out = if Array.length Sys.argv > 3 && Sys.argv.(2) = "--coq" then Some (open_out Sys.argv.(3)) else None in
  let coq_max = if Array.length Sys.argv > 4 then int_of_string Sys.argv.(4) else 100 in
  let hs = parse_file path in
  let total = List.length hs in
  (* spread the in-Coq sample over the whole file so that every case kind is in it *)
  let stride = if coq_max <= 0 then max_int else max 1 (total / coq_max) in
  let coq_cases = ref [] in
  List.iteri (fun i h ->
    let c = h.h_case in
    let acc = accept_case c in
    let m1 = c17 c and m2 = c17core c in
    let f1 = if m1 then -1 else first_fail c17 c in
    let f2 = if m2 then -1 else first_fail c17core c in
    let k1 = k_PJ1 c and k2 = k_PJ2 c and k3 = k_PJ3 c in
    let bi v = if v then 1 else 0 in
    Printf.printf "hist %d line %d nev %d acc %s m:c17 %d %d m:c17core %d %d f:k_PJ1 %d f:k_PJ2 %d f:k_PJ3 %d f:kind_%s 1\n"
      i h.h_line h.h_nev
      (match acc with None -> "ok" | Some (k, d) -> Printf.sprintf "div %d %s" (int_of_nat k) (class_name d))
      (bi m1) f1 (bi m2) f2 (bi k1) (bi k2) (bi k3) h.h_kind;
    if coq_out <> None && i mod stride = 0 && List.length !coq_cases < coq_max then
      coq_cases := (c, acc = None, m1, m2, k1, k2, k3) :: !coq_cases
  ) hs;
  match coq_out with
  | None -> ()
  | Some oc ->
      output_string oc "From GV Require Import Config.Model Config.Monitors.\nOpen Scope Z_scope.\n";
      output_string oc "Definition case_ok (c : case) (acc m1 m2 k1 k2 k3 : bool) : bool :=\n  Bool.eqb (match accept_case c with None => true | Some _ => false end) acc && Bool.eqb (c17 c) m1 && Bool.eqb (c17core c) m2 && Bool.eqb (k_PJ1 c) k1 && Bool.eqb (k_PJ2 c) k2 && Bool.eqb (k_PJ3 c) k3.\n";
      List.iteri (fun i (c, acc, m1, m2, k1, k2, k3) ->
        Printf.fprintf oc "Definition case_%d : bool := case_ok %s %b %b %b %b %b %b.\n" i (ccase c) acc m1 m2 k1 k2 k3) (List.rev !coq_cases);
      Printf.fprintf oc "Definition all_cases : list bool := %s.\n"
        (clist (fun i -> "case_" ^ string_of_int i) (List.init (List.length !coq_cases) (fun i -> i)));
      output_string oc "Definition mismatches : list nat := Eval vm_compute in\n  map fst (filter (fun p => negb (snd p)) (combine (seq 0 (length all_cases)) all_cases)).\nPrint mismatches.\n";
      close_out oc
