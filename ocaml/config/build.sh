#!/bin/sh
# builds the engine-D/Config driver from the extracted model; run from anywhere
set -e
cd "$(dirname "$0")"
# the extraction file needs the compiled Config theory (not part of the _CoqProject build when run stand-alone)
re=0
for f in Json Model Monitors; do
  if [ $re = 1 ] || [ ! -f ../../coq/Config/$f.vo ] || [ ../../coq/Config/$f.v -nt ../../coq/Config/$f.vo ]; then
    ( cd ../../coq/Config && coqc -Q .. GV $f.v >/dev/null )
    re=1
  fi
done
coqc -Q ../../coq GV ../../coq/Extract/ExtractCONFIG.v >/dev/null
( echo "open Config_model"; cat ../common/conv.ml config_driver_body.ml ) > config_driver.ml
ocamlfind ocamlopt -O2 -w -a config_model.mli config_model.ml config_driver.ml -o config_driver 2>/dev/null || \
ocamlfind ocamlopt -w -a config_model.mli config_model.ml config_driver.ml -o config_driver
