#!/bin/sh
# builds the codec-engine (C19) driver from the extracted model; run from anywhere
set -e
cd "$(dirname "$0")"
coqc -Q ../../coq GV ../../coq/Extract/ExtractCODEC.v >/dev/null
( echo "open Codec_model"; cat ../common/conv.ml codec_driver_body.ml ) > codec_driver.ml
ocamlfind ocamlopt -package unix -linkpkg -O2 -w -a codec_model.mli codec_model.ml codec_driver.ml -o codec_driver 2>/dev/null || \
ocamlfind ocamlopt -package unix -linkpkg -w -a codec_model.mli codec_model.ml codec_driver.ml -o codec_driver
