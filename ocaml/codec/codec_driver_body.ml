(* Driver for the codec engine (C19): parses the trace written by the Go
   harness, runs the extracted model / monitors on every case and prints one
   verdict line per case.  With --coq it also writes a Coq file that
   re-evaluates a sample of the cases with vm_compute.

   The extracted functions recurse over byte lists (length, split_at, parse);
   a 1 MiB payload needs more than the default 8 MiB stack, so the driver
   re-executes itself once under `ulimit -s unlimited`. *)
exception Bad of string

let () =
  if Sys.getenv_opt "CODEC_DRIVER_STACK" = None then begin
    let script = "ulimit -s unlimited 2>/dev/null || ulimit -s 4000000 2>/dev/null || ulimit -s 1000000 2>/dev/null; CODEC_DRIVER_STACK=1; export CODEC_DRIVER_STACK; exec \"$0\" \"$@\"" in
    let args = Array.append [| "sh"; "-c"; script; Sys.executable_name |]
        (Array.sub Sys.argv 1 (Array.length Sys.argv - 1)) in
    (try Unix.execv "/bin/sh" args with _ -> ())
  end

(* ---- bytes ---- *)
let btab : byte array = Array.init 256 (fun i -> byte_of_N (n_of_int i))
let int_of_byte (b : byte) : int = int_of_n (to_N b)

let hexval c = match c with
  | '0' .. '9' -> Char.code c - 48
  | 'a' .. 'f' -> Char.code c - 87
  | 'A' .. 'F' -> Char.code c - 55
  | _ -> raise (Bad "hex digit")

let bytes_of_hex (s : string) : byte list =
  if s = "-" then [] else begin
    let n = String.length s in
    if n mod 2 <> 0 then raise (Bad "odd hex length");
    let acc = ref [] in
    for i = n / 2 - 1 downto 0 do
      acc := btab.(hexval s.[2 * i] * 16 + hexval s.[2 * i + 1]) :: !acc
    done;
    !acc
  end

(* N from a decimal string < 2^62 *)
let n_of_dec s = n_of_int (int_of_string s)

type case = {
  c_line : int;
  c_kind : string;                (* M / R / E *)
  c_inner : result;               (* what the inner codec returned *)
  c_out : result;                 (* what myCodec.Marshal returned *)
  c_same : bool;                  (* ERR: same error value *)
  c_crc : int; c_rt : int; c_fsn : int; c_fsh : int; c_d : int;
}

let parse_line (i : int) (line : string) : case =
  match split_on ";" (tokens line) with
  | [opt; outt; obst] ->
      let kind, ophex = match opt with
        | ["H"; "M"; _; hx] -> "M", Some hx
        | ["H"; "R"; hx] -> "R", Some hx
        | "H" :: "E" :: _ -> "E", None
        | _ -> raise (Bad ("op, line " ^ string_of_int (i + 1))) in
      let out, same = match outt with
        | ["OK"; hx] -> Ok (bytes_of_hex hx), true
        | ["ERR"; hx; s] -> Err (bytes_of_hex hx), s = "1"
        | _ -> raise (Bad ("out, line " ^ string_of_int (i + 1))) in
      (match obst with
       | ["I"; ie; ihx; "CRC"; c; "RT"; r; "FS"; n; h; "D"; d] ->
           let ib = if ihx = "=" then
               (match ophex with Some hx -> bytes_of_hex hx | None -> raise (Bad "= without op hex"))
             else bytes_of_hex ihx in
           { c_line = i + 1; c_kind = kind;
             c_inner = (if ie = "1" then Err ib else Ok ib);
             c_out = out; c_same = same;
             c_crc = int_of_string c; c_rt = int_of_string r; c_fsn = int_of_string n;
             c_fsh = int_of_string h; c_d = int_of_string d }
       | _ -> raise (Bad ("obs, line " ^ string_of_int (i + 1))))
  | _ -> raise (Bad ("line " ^ string_of_int (i + 1)))

let rec list_len_int acc = function [] -> acc | _ :: r -> list_len_int (acc + 1) r

(* H A n t1 hex1 .. ; OK out1 .. outn ; L x1..xn M x1..xn S x2..xn CRC c1..cn *)
let parse_seq (i : int) (line : string) : seq_call list * int list =
  let bad w = raise (Bad (w ^ ", line " ^ string_of_int (i + 1))) in
  match split_on ";" (tokens line) with
  | [ "H" :: "A" :: ns :: pairs; "OK" :: outs; obst ] ->
      let n = int_of_string ns in
      if List.length pairs <> 2 * n || List.length outs <> n then bad "A arity";
      let rec inners = function _ :: hx :: r -> bytes_of_hex hx :: inners r | _ -> [] in
      let inn = inners pairs in
      let outv = List.map (fun t -> if String.length t > 0 && t.[0] = '!'
                            then Err (bytes_of_hex (String.sub t 1 (String.length t - 1)))
                            else Ok (bytes_of_hex t)) outs in
      let (l, rest) = (match obst with "L" :: r -> (take n r, drop n r) | _ -> bad "A obs L") in
      let (m, rest) = (match rest with "M" :: r -> (take n r, drop n r) | _ -> bad "A obs M") in
      let (s, rest) = (match rest with "S" :: r -> (take (n - 1) r, drop (n - 1) r) | _ -> bad "A obs S") in
      let crcs = (match rest with "CRC" :: r when List.length r = n -> List.map int_of_string r | _ -> bad "A obs CRC") in
      let later k o =
        let ob = (match o with Ok b -> b | Err b -> b) in
        let rd t = if t = "=" then ob else bytes_of_hex t in
        rd (List.nth l k) :: rd (List.nth m k) :: (if k >= 1 then [rd (List.nth s (k - 1))] else []) in
      (List.mapi (fun k (p, o) -> { sc_inner = p; sc_out = o; sc_later = later k o }) (List.combine inn outv), crcs)
  | _ -> bad "A line"

(* ---- Coq printers ---- *)
let cbytes (l : byte list) : string =
  "(bs [" ^ String.concat ";" (List.map (fun b -> string_of_int (int_of_byte b)) l) ^ "])"
let cresult = function Ok b -> "(Ok " ^ cbytes b ^ ")" | Err b -> "(Err " ^ cbytes b ^ ")"

let () =
  let path = Sys.argv.(1) in
  let coq_out = if Array.length Sys.argv > 3 && Sys.argv.(2) = "--coq" then Some (open_out Sys.argv.(3)) else None in
  let coq_max = if Array.length Sys.argv > 4 then int_of_string Sys.argv.(4) else 100 in
  let coq_cases = ref [] and coq_n = ref 0 and coq_seq = ref [] in
  let idx = ref 0 in
  List.iteri (fun i line ->
    if String.length line > 3 && String.sub line 0 4 = "H A " then begin
      (* a sequence of calls *)
      let calls, crcs = parse_seq i line in
      let total = List.fold_left (fun a c -> a + list_len_int 0 c.sc_inner) 0 calls in
      let skip = coq_out <> None && (!coq_n >= coq_max || total > 200) in
      if skip then incr idx else begin
      let vals_ok = accept_seq_values calls in
      let crc_ok = List.for_all2 (fun c k -> int_of_n (crc32c c.sc_inner) = k) calls crcs in
      let stable = seq_stable calls in
      let all_ok = List.for_all (fun c -> match c.sc_out with Ok _ -> true | Err _ -> false) calls in
      let acc =
        if not all_ok then Some "error"
        else if not vals_ok then Some "bytes"
        else if not crc_ok then Some "crc"
        else if not stable then Some "alias"
        else None in
      let mon = c19_seq_ok calls in
      Printf.printf "hist %d line %d nev 0 acc %s m:c19 %d -1 f:inner_err 0 f:inner_len %d f:out_wellformed 0 f:seq %d\n"
        !idx (i + 1) (match acc with None -> "ok" | Some cl -> "div 0 " ^ cl) (if mon then 1 else 0) total
        (list_len_int 0 calls);
      if coq_out <> None then begin
        incr coq_n;
        coq_seq := (calls, vals_ok, stable, mon) :: !coq_seq
      end;
      incr idx
      end
    end else
    if String.length line > 1 && line.[0] = 'H' && line.[1] = ' ' then begin
      let c = parse_line i line in
      let inner_bytes = match c.c_inner with Ok b -> b | Err b -> b in
      (* in --coq mode only the sample written to the Coq file matters (stdout is
         not read): skip what will not be part of it *)
      let skip = coq_out <> None &&
                 (!coq_n >= coq_max || list_len_int 0 inner_bytes > 200
                  || list_len_int 0 (match c.c_out with Ok b -> b | Err b -> b) > 300) in
      if skip then incr idx else begin
      (* correspondence: model vs implementation *)
      let acc_ok = accept c.c_inner c.c_out in
      let crc = crc32c inner_bytes in
      let fs_out = match c.c_out with Ok o -> fields o | Err _ -> None in
      let fs_sum = match fs_out with
        | None -> None
        | Some fs -> Some (list_len_int 0 fs, int_of_n (fields_digest fs)) in
      let acc =
        if not acc_ok then
          Some (match marshal c.c_inner, c.c_out with Ok _, Ok _ -> "bytes" | _ -> "error")
        else if int_of_n crc <> c.c_crc then Some "crc"
        else if (match c.c_out, fs_sum with
                 | Err _, _ -> false
                 | Ok _, None -> c.c_fsn <> -1
                 | Ok _, Some (n, h) -> n <> c.c_fsn || h <> c.c_fsh) then Some "fields"
        else if c.c_rt = 0 then Some "roundtrip"
        else if c.c_rt = 3 then Some "unmarshal"   (* model: Unmarshal hands the data to the inner codec unchanged *)
        else if c.c_d = 0 then Some "direct"
        else None in
      (* property monitor on the implementation's output *)
      let mon = c19_case_ok c.c_inner c.c_out c.c_same (n_of_int c.c_rt) in
      let ilen = list_len_int 0 inner_bytes in
      Printf.printf "hist %d line %d nev 0 acc %s m:c19 %d -1 f:inner_err %d f:inner_len %d f:out_wellformed %d\n"
        !idx c.c_line
        (match acc with None -> "ok" | Some cl -> "div 0 " ^ cl)
        (if mon then 1 else 0)
        (match c.c_inner with Err _ -> 1 | Ok _ -> 0) ilen
        (match fs_sum with Some _ -> 1 | None -> 0);
      if coq_out <> None && !coq_n < coq_max && ilen <= 200
         && list_len_int 0 (match c.c_out with Ok b -> b | Err b -> b) <= 300 then begin
        incr coq_n;
        coq_cases := (c, acc_ok, crc, fs_sum, mon) :: !coq_cases
      end;
      incr idx
      end
    end) (read_lines path);
  match coq_out with
  | None -> ()
  | Some oc ->
      output_string oc "From Coq Require Import NArith List Bool Strings.Byte.\nFrom GV Require Import Codec.Model Codec.Monitors.\nImport ListNotations.\nOpen Scope N_scope.\n";
      output_string oc "Definition bs (l : list N) : bytes := map byte_of_N l.\n";
      output_string oc "Definition opt_eqb (a b : option (N * N)) : bool :=\n  match a, b with\n  | None, None => true\n  | Some (x, y), Some (x', y') => (x =? x') && (y =? y')\n  | _, _ => false\n  end.\n";
      output_string oc "Definition res_bytes (r : result) : bytes := match r with Ok b => b | Err b => b end.\n";
      output_string oc "Definition case_ok (inner out : result) (same : bool) (rt : N) (d_acc : bool) (d_crc : N) (d_fs : option (N * N)) (d_mon : bool) : bool :=\n  Bool.eqb (accept inner out) d_acc\n  && (crc32c (res_bytes inner) =? d_crc)\n  && opt_eqb (match out with Ok o => option_map (fun fs => (N.of_nat (length fs), fields_digest fs)) (fields o) | Err _ => None end) d_fs\n  && Bool.eqb (C19_case_ok inner out same rt) d_mon.\n";
      let cases = List.rev !coq_cases in
      List.iteri (fun i (c, acc_ok, crc, fs_sum, mon) ->
        Printf.fprintf oc "Definition case_%d : bool := case_ok %s %s %b %d %b %d %s %b.\n" i
          (cresult c.c_inner) (cresult c.c_out) c.c_same c.c_rt acc_ok (int_of_n crc)
          (match fs_sum with None -> "None" | Some (n, h) -> Printf.sprintf "(Some (%d, %d))" n h) mon) cases;
      output_string oc "Definition seq_case_ok (l : list seq_call) (d_vals d_stable d_mon : bool) : bool :=\n  Bool.eqb (accept_seq_values l) d_vals && Bool.eqb (seq_stable l) d_stable && Bool.eqb (C19_seq_ok l) d_mon.\n";
      let nc = List.length cases in
      let seqs = List.rev !coq_seq in
      List.iteri (fun i (calls, v, st, mon) ->
        Printf.fprintf oc "Definition case_%d : bool := seq_case_ok [%s] %b %b %b.\n" (nc + i)
          (String.concat "; " (List.map (fun c -> Printf.sprintf "mkSeqCall %s %s [%s]" (cbytes c.sc_inner) (cresult c.sc_out)
                                                   (String.concat "; " (List.map cbytes c.sc_later))) calls))
          v st mon) seqs;
      Printf.fprintf oc "Definition all_cases : list bool := [%s].\n"
        (String.concat "; " (List.init (nc + List.length seqs) (fun i -> "case_" ^ string_of_int i)));
      output_string oc "Definition mismatches : list nat := Eval vm_compute in\n  map fst (filter (fun p => negb (snd p)) (combine (seq 0 (length all_cases)) all_cases)).\nPrint mismatches.\n";
      close_out oc
