#!/bin/sh
# builds the engine-E (Stream, C12) driver from the extracted model; run from anywhere.
# ocaml/common/conv.ml is not included: the model extracts no N/Z/positive (only nat),
# the two nat conversions needed are in the body.
set -e
cd "$(dirname "$0")"
coqc -Q ../../coq GV ../../coq/Extract/ExtractSTREAM.v >/dev/null
( echo "open Stream_model"; cat stream_driver_body.ml ) > stream_driver.ml
ocamlfind ocamlopt -O2 -w -a stream_model.mli stream_model.ml stream_driver.ml -o stream_driver 2>/dev/null || \
ocamlfind ocamlopt -w -a stream_model.mli stream_model.ml stream_driver.ml -o stream_driver
