(* Driver of engine E (Stream, C12).  Everything semantic is the extracted Coq
   code (Stream_model); this file is parsing/printing glue and search loops.

   stream_driver check <stream.ir> [<witness.hist>]
       breadth-first exploration of the core system of the program: prints the
       size of the state space and, when a step-local or state check fails, the
       shortest model path to it; then searches a schedule at yield-point
       granularity whose log the monitor rejects and writes it as a history.
   stream_driver enum <stream.ir> <out.hist> <quick|thorough> <seed> <max>
       enumerates interleavings (at yield-point granularity) of small call
       scripts, creation outcomes and cancellation points.
   stream_driver <trace> --ir <stream.ir> [--coq <Cases.v> <max>]
       compares what the harness recorded on the real code with the model and
       runs the Coq monitors on the implementation's events.                 *)
exception Bad of string

(* ---- nat ---- *)
let rec nat_of_int (i : int) : nat = if i <= 0 then O else S (nat_of_int (i - 1))
let rec int_of_nat (x : nat) : int = match x with O -> 0 | S y -> 1 + int_of_nat y

let tokens (line : string) : string list =
  List.filter (fun s -> s <> "") (String.split_on_char ' ' line)

let read_lines (path : string) : string list =
  let ic = open_in path in
  let rec go acc = match input_line ic with
    | l -> go (l :: acc)
    | exception End_of_file -> close_in ic; List.rev acc in
  go []

let split_semis (line : string) : string list list =
  List.map tokens (String.split_on_char ';' line)

(* ---- IR parser ---- *)
let meth_of_coq = function
  | "MSend" -> MSend | "MRecv" -> MRecv | "MCloseSend" -> MCloseSend
  | "MHeader" -> MHeader | "MTrailer" -> MTrailer | "MContext" -> MContext
  | s -> raise (Bad ("meth " ^ s))

let retk_of = function
  | "RNil" -> RNil | "RLocalErr" -> RLocalErr | "RInitErr" -> RInitErr
  | "RCtxErr" -> RCtxErr | "RCallCtx" -> RCallCtx | s -> raise (Bad ("retk " ^ s))

let bool_of = function "true" -> true | "false" -> false | s -> raise (Bad ("bool " ^ s))

let rec parse_cnd (t : string list) : cnd * string list =
  match t with
  | "(" :: r ->
      let (c, r') = parse_cnd_app r in
      (match r' with ")" :: r'' -> (c, r'') | _ -> raise (Bad "cnd: missing )"))
  | "CStreamNil" :: r -> (CStreamNil, r)
  | "CErrSet" :: r -> (CErrSet, r)
  | "CCtxLive" :: r -> (CCtxLive, r)
  | "CWatching" :: r -> (CWatching, r)
  | "CCancellable" :: r -> (CCancellable, r)
  | "CLocalErr" :: r -> (CLocalErr, r)
  | "CTrue" :: r -> (CTrue, r)
  | s :: _ -> raise (Bad ("cnd " ^ s))
  | [] -> raise (Bad "cnd: empty")
and parse_cnd_app (t : string list) : cnd * string list =
  match t with
  | "CNot" :: r -> let (a, r1) = parse_cnd r in (CNot a, r1)
  | "CAnd" :: r -> let (a, r1) = parse_cnd r in let (b, r2) = parse_cnd r1 in (CAnd (a, b), r2)
  | "COr" :: r -> let (a, r1) = parse_cnd r in let (b, r2) = parse_cnd r1 in (COr (a, b), r2)
  | _ -> parse_cnd t

let rec parse_block (t : string list) : instr list * string list =
  match t with
  | "[" :: r -> parse_items r []
  | _ -> raise (Bad "block: missing [")
and parse_items (t : string list) (acc : instr list) : instr list * string list =
  match t with
  | "]" :: r -> (List.rev acc, r)
  | "ILock" :: r -> parse_items r (ILock :: acc)
  | "IUnlock" :: r -> parse_items r (IUnlock :: acc)
  | "IBroadcast" :: r -> parse_items r (IBroadcast :: acc)
  | "IWait" :: r -> parse_items r (IWait :: acc)
  | "ISetErr" :: r -> parse_items r (ISetErr :: acc)
  | "IClearErr" :: r -> parse_items r (IClearErr :: acc)
  | "ILoadErr" :: r -> parse_items r (ILoadErr :: acc)
  | "ISetStream" :: r -> parse_items r (ISetStream :: acc)
  | "ISetWatching" :: r -> parse_items r (ISetWatching :: acc)
  | "ISpawn" :: r -> parse_items r (ISpawn :: acc)
  | "IAwaitDone" :: r -> parse_items r (IAwaitDone :: acc)
  | "IMkCtx" :: b :: r -> parse_items r (IMkCtx (bool_of b) :: acc)
  | "ICallStreamer" :: b :: r -> parse_items r (ICallStreamer (bool_of b) :: acc)
  | "IReturn" :: k :: r -> parse_items r (IReturn (retk_of k) :: acc)
  | "IDelegate" :: m :: b :: r -> parse_items r (IDelegate (meth_of_coq m, bool_of b) :: acc)
  | "IIfElse" :: "{" :: r ->
      let (c, r1) = parse_cnd_app r in
      (match r1 with
       | "}" :: r2 ->
           let (a, r3) = parse_block r2 in
           let (b, r4) = parse_block r3 in
           parse_items r4 (IIfElse (c, a, b) :: acc)
       | _ -> raise (Bad "missing }"))
  | ("IIf" | "IWhile" as op) :: "{" :: r ->
      let (c, r1) = parse_cnd_app r in
      (match r1 with
       | "}" :: r2 ->
           let (b, r3) = parse_block r2 in
           parse_items r3 ((if op = "IIf" then IIf (c, b) else IWhile (c, b)) :: acc)
       | _ -> raise (Bad "missing }"))
  | s :: _ -> raise (Bad ("instr " ^ s))
  | [] -> raise (Bad "block: missing ]")

let parse_ir (path : string) : prog =
  let tbl = Hashtbl.create 8 in
  List.iter (fun line ->
    match tokens line with
    | [] -> ()
    | name :: rest ->
        let (b, r) = parse_block rest in
        if r <> [] then raise (Bad ("trailing tokens in " ^ name));
        Hashtbl.replace tbl name b) (read_lines path);
  let g n = try Hashtbl.find tbl n with Not_found -> raise (Bad ("IR lacks " ^ n)) in
  { p_send = g "SendMsg"; p_recv = g "RecvMsg"; p_close = g "CloseSend"; p_header = g "Header";
    p_trailer = g "Trailer"; p_context = g "Context"; p_watch = g "watch" }

(* ---- names ---- *)
let tid_s = function T0 -> "0" | T1 -> "1" | TW -> "W"
let tid_of = function "0" -> T0 | "1" -> T1 | "W" -> TW | s -> raise (Bad ("tid " ^ s))
let meth_s = function
  | MSend -> "send" | MRecv -> "recv" | MCloseSend -> "close" | MHeader -> "header"
  | MTrailer -> "trailer" | MContext -> "context"
let meth_of = function
  | "send" -> MSend | "recv" -> MRecv | "close" -> MCloseSend | "header" -> MHeader
  | "trailer" -> MTrailer | "context" -> MContext | s -> raise (Bad ("meth " ^ s))

(* a call in a script: s<k> r<k> c h t x *)
let call_of_tok (s : string) : meth * int =
  let n = String.length s in
  if n = 0 then raise (Bad "empty call");
  let arg = if n > 1 then int_of_string (String.sub s 1 (n - 1)) else 0 in
  (match s.[0] with
   | 's' -> MSend | 'r' -> MRecv | 'c' -> MCloseSend | 'h' -> MHeader | 't' -> MTrailer | 'x' -> MContext
   | _ -> raise (Bad ("call " ^ s))), arg

let tok_of_call ((m, a) : meth * int) : string =
  match m with
  | MSend -> "s" ^ string_of_int a | MRecv -> "r" ^ string_of_int a
  | MCloseSend -> "c" | MHeader -> "h" | MTrailer -> "t" | MContext -> "x"

let site_s = function
  | SIdle -> "idle" | SLock -> "lock" | SUnlock -> "unlock" | SBroadcast -> "bcast" | SWait -> "wait"
  | SStreamer -> "streamer" | SDelegate -> "deleg" | SAwait -> "await" | SRelock -> "relock"
  | SInWait -> "inwait" | SDead -> "dead" | SFin -> "fin" | SMid -> "mid"

let rval_s = function
  | VNil -> "nil" | VErr k -> "err" ^ string_of_int (int_of_nat k) | VCtxErr -> "ctxerr"
  | VCallCtx -> "callctx" | VOther -> "other"

let rval_of (s : string) : rval =
  match s with
  | "nil" -> VNil | "ctxerr" -> VCtxErr | "callctx" -> VCallCtx
  | _ when String.length s > 3 && String.sub s 0 3 = "err" ->
      (try VErr (nat_of_int (int_of_string (String.sub s 3 (String.length s - 3)))) with _ -> VOther)
  | _ -> VOther

let event_obs (e : event) : string option =
  match e with
  | ECreate (t, cm, n, ok) ->
      Some (Printf.sprintf "C:%s:%s:%d:%s" (tid_s t)
              (match cm with Some a -> string_of_int (int_of_nat a) | None -> "-")
              (int_of_nat n) (if ok then "k" else "f"))
  | EDeleg (t, m, a) -> Some (Printf.sprintf "D:%s:%s:%d" (tid_s t) (meth_s m) (int_of_nat a))
  | _ -> None

let event_s (e : event) : string =
  match e with
  | ECall (t, m, a) -> Printf.sprintf "call(%s,%s,%d)" (tid_s t) (meth_s m) (int_of_nat a)
  | ERet (t, v) -> Printf.sprintf "ret(%s,%s)" (tid_s t) (rval_s v)
  | EPanic t -> Printf.sprintf "panic(%s)" (tid_s t)
  | EBad t -> Printf.sprintf "bad(%s)" (tid_s t)
  | ECancel -> "cancel"
  | _ -> (match event_obs e with Some s -> s | None -> "?")

(* what the monitor refused, as one token: <event>@<method of the call in progress> *)
let open_meth (es : event list) (t : tid) : string =
  let rec go l acc = match l with
    | [] -> acc
    | ECall (u, m, _) :: r when u = t -> go r (meth_s m)
    | _ :: r -> go r acc in
  go es "-"

let rec take k l = if k <= 0 then [] else match l with [] -> [] | x :: r -> x :: take (k - 1) r

let event_tid (e : event) : tid option =
  match e with
  | ECall (t, _, _) | ECreate (t, _, _, _) | EDeleg (t, _, _) | ERet (t, _) | EPanic t | EBad t -> Some t
  | ECancel -> None

(* returns (description, known-finding id or "") *)
let describe_failure (es : event list) (xs : stuck list) : string * string =
  match mon_fail_at mst_init es O with
  | Some n ->
      let i = int_of_nat n in
      let e = List.nth es i in
      let pre = take i es in
      let m = (match event_tid e with Some t -> open_meth pre t | None -> "-") in
      let st = (match mon_run mst_init pre with Some ms -> Some ms.m_a | None -> None) in
      let created = (match st with Some a -> a.a_created | None -> false) in
      let kind = (match e with
        | EPanic _ -> "panic" | ERet (_, VErr _) -> "ret-err" | ERet (_, v) -> "ret-" ^ rval_s v | ECreate (_, None, _, _) -> "create-without-message"
        | ECreate (_, _, _, _) -> if created then "second-creation" else "create-wrong-message"
        | EDeleg _ -> "delegation" | EBad _ -> "bad" | ECall _ -> "call" | ECancel -> "cancel") in
      let known =
        (match e with
         | EPanic _ when not created && List.mem m ["header"; "trailer"; "close"; "context"] -> "S1"
         | ERet (_, VErr _) when created && List.mem m ["recv"; "header"] -> "S3"
         | _ -> "") in
      (kind ^ "@" ^ m, known)
  | None ->
      (match mon_run mst_init es with
       | Some ms ->
           let bad = List.filter (fun x -> not (stuck_ok ms.m_a x)) xs in
           (match bad with
            | StuckWait t :: _ ->
                let a = ms.m_a in
                let why = if a.a_created then "stream-exists" else if a.a_anyfail then "creation-failed"
                  else if a.a_done then "ctx-ended" else "?" in
                ("stuck-in-wait@" ^ open_meth es t ^ ":" ^ why,
                 if a.a_done && not a.a_created && not a.a_anyfail then "S2" else "")
            | StuckOther t :: _ -> ("blocked@" ^ open_meth es t, "")
            | [] -> ("?", ""))
       | None -> ("?", ""))

let label_s (l : label) : string =
  match l with
  | LCall (t, m) -> Printf.sprintf "%s:call-%s" (tid_s t) (meth_s m)
  | LTau t -> Printf.sprintf "%s:tau" (tid_s t)
  | LCreate (t, wm, ok) -> Printf.sprintf "%s:streamer(msg-in-ctx=%b,ok=%b)" (tid_s t) wm ok
  | LDeleg (t, m, same) -> Printf.sprintf "%s:delegate-%s(same-args=%b)" (tid_s t) (meth_s m) same
  | LRet (t, _, v) ->
      Printf.sprintf "%s:return-%s" (tid_s t)
        (match v with KNil -> "nil" | KErr -> "creation-error" | KCtxErr -> "ctx-error" | KCallCtx -> "call-ctx")
  | LPanic (t, w) ->
      Printf.sprintf "%s:PANIC-%s" (tid_s t)
        (match w with WNilStream -> "nil-stream" | WUnlockUnlocked -> "unlock-of-unlocked-mutex"
                    | WWaitUnlocked -> "wait-without-lock")
  | LForeignUnlock t -> Printf.sprintf "%s:UNLOCK-OF-FOREIGN-MUTEX" (tid_s t)
  | LUnsupported t -> Printf.sprintf "%s:SECOND-WATCHER" (tid_s t)
  | LCancel -> "cancel"

let instr_head (s : core) (t : tid) : string = site_s (site_of s t)

let all_tids = [T0; T1; TW]

(* ---- history configuration ---- *)
type cfg = {
  g_s : (meth * int) list;     (* sender script *)
  g_r : (meth * int) list;     (* receiver script *)
  g_o : bool list;             (* creation outcomes, then ok *)
  g_c : bool;                  (* cancellable context *)
}

let script_s (l : (meth * int) list) : string =
  if l = [] then "-" else String.concat "," (List.map tok_of_call l)
let script_of (s : string) : (meth * int) list =
  if s = "-" then [] else List.map call_of_tok (String.split_on_char ',' s)
let oracle_s (l : bool list) : string =
  if l = [] then "-" else String.concat "" (List.map (fun b -> if b then "k" else "f") l)
let oracle_of (s : string) : bool list =
  if s = "-" then [] else List.init (String.length s) (fun i -> s.[i] = 'k')

let header_s (g : cfg) : string =
  Printf.sprintf "H S %s R %s O %s C %d" (script_s g.g_s) (script_s g.g_r) (oracle_s g.g_o) (if g.g_c then 1 else 0)

let cfg_of_header (t : string list) : cfg =
  match t with
  | ["H"; "S"; s; "R"; r; "O"; o; "C"; c] ->
      { g_s = script_of s; g_r = script_of r; g_o = oracle_of o; g_c = (c = "1") }
  | _ -> raise (Bad ("header: " ^ String.concat " " t))

(* ---- running the model along a schedule ---- *)
type mstate = {
  conf : conf;
  rem0 : (meth * int) list;
  rem1 : (meth * int) list;
  orc : bool list;
}

let mstart (g : cfg) : mstate = { conf = conf0 g.g_c; rem0 = g.g_s; rem1 = g.g_r; orc = g.g_o }

let rec drop_prefix (a : 'a list) (b : 'a list) : 'a list =
  match a, b with
  | [], r -> r
  | _ :: a', _ :: b' -> drop_prefix a' b'
  | _, [] -> []

(* one schedule operation; returns the new state, the model's output tokens and observation tokens *)
type op = OCall of tid * (meth * int) | OStep of tid * string | OCancel | OEnd
        | OBegin of tid * (meth * int) | OFinish of tid    (* unscheduled runs: a call starts / ends *)

let op_s (o : op) (extras : tid list) : string =
  let ex = String.concat "" (List.map (fun t -> " +" ^ tid_s t) extras) in
  match o with
  | OCall (t, c) -> Printf.sprintf "%s call %s%s" (tid_s t) (tok_of_call c) ex
  | OStep (t, site) -> Printf.sprintf "%s %s%s" (tid_s t) site ex
  | OCancel -> "X cancel" ^ ex
  | OEnd -> "E"
  | OBegin (t, c) -> Printf.sprintf "%s begin %s" (tid_s t) (tok_of_call c)
  | OFinish t -> Printf.sprintf "%s end" (tid_s t)

let parse_op (t : string list) : op * tid list =
  let extras = List.filter_map (fun s -> if String.length s > 1 && s.[0] = '+' then
                                   Some (tid_of (String.sub s 1 (String.length s - 1))) else None) t in
  let core = List.filter (fun s -> not (String.length s > 1 && s.[0] = '+')) t in
  match core with
  | ["E"] -> (OEnd, [])
  | ["X"; "cancel"] -> (OCancel, extras)
  | [t; "call"; c] -> (OCall (tid_of t, call_of_tok c), extras)
  | [t; "begin"; c] -> (OBegin (tid_of t, call_of_tok c), extras)
  | [t; "end"] -> (OFinish (tid_of t), extras)
  | [t; site] -> (OStep (tid_of t, site), extras)
  | _ -> raise (Bad ("op: " ^ String.concat " " t))

let status_after (c : conf) (newev : event list) (t : tid) : string =
  match site_of c.c_s t with
  | SIdle ->
      let mine = List.filter (fun e -> match e with
        | ERet (u, _) | EDeleg (u, _, _) -> u = t | _ -> false) newev in
      (match List.rev mine with
       | ERet (_, v) :: _ -> "ret:" ^ rval_s v
       | EDeleg _ :: _ -> "deleg"
       | _ -> "idle")
  | SDead -> "panic"
  | SFin -> "fin"
  | SInWait -> "inwait"
  | SMid -> "spin"
  | s -> "park:" ^ site_s s

let final_status (c : conf) (t : tid) : string =
  match site_of c.c_s t, t with
  | SIdle, TW -> "none"
  | SIdle, _ -> "idle"
  | SDead, _ -> "dead"
  | SFin, _ -> "fin"
  | SInWait, _ -> "inwait"
  | s, _ -> "park:" ^ site_s s

(* apply an operation to the model; None = not enabled in the model *)
let mstep (p : prog) (ms : mstate) (o : op) : (mstate * string list * string list * tid list) option =
  let finish (c' : conf) (ms' : mstate) (t : tid option) =
    let newev = drop_prefix ms.conf.c_log c'.c_log in
    let extras = List.filter (fun u -> Some u <> t && newly_parked ms.conf c' u) all_tids in
    let out = (match t with Some t -> [status_after c' newev t] | None -> ["ok"]) @
              List.map (fun u -> "+" ^ tid_s u ^ ":" ^ status_after c' newev u) extras in
    let obs = List.filter_map event_obs newev in
    Some ({ ms' with conf = c' }, out, obs, extras) in
  match o with
  | OCall (t, (m, a)) ->
      let rem = (match t with T0 -> ms.rem0 | T1 -> ms.rem1 | TW -> []) in
      (match rem with
       | (m', a') :: rest when m' = m && a' = a ->
           (match macro p ms.conf (ChCall (t, m, nat_of_int a)) with
            | Some (c', _) ->
                finish c' (match t with T0 -> { ms with rem0 = rest } | _ -> { ms with rem1 = rest }) (Some t)
            | None -> None)
       | _ -> None)
  | OStep (t, site) ->
      if site_s (site_of ms.conf.c_s t) <> site then None
      else begin
        let consume = at_streamer ms.conf t in
        let ok = (match ms.orc with b :: _ -> b | [] -> true) in
        match macro p ms.conf (ChStep (t, ok)) with
        | Some (c', _) ->
            finish c' (if consume then { ms with orc = (match ms.orc with _ :: r -> r | [] -> []) } else ms) (Some t)
        | None -> None
      end
  | OCancel ->
      (match macro p ms.conf ChCancel with
       | Some (c', _) -> finish c' ms None
       | None -> None)
  | OEnd ->
      let out = List.map (fun t -> tid_s t ^ ":" ^ final_status ms.conf t) all_tids in
      Some (ms, out, [], [])
  | OBegin _ | OFinish _ -> None

(* the operations enabled in the model *)
let enabled_ops (p : prog) (ms : mstate) (with_cancel : bool) : op list =
  let per t =
    match site_of ms.conf.c_s t with
    | SIdle ->
        (match t, ms.rem0, ms.rem1 with
         | T0, c :: _, _ -> [OCall (T0, c)]
         | T1, _, c :: _ -> [OCall (T1, c)]
         | _ -> [])
    | s -> if enabled_step p ms.conf t then [OStep (t, site_s s)] else [] in
  let cancel = if with_cancel && macro p ms.conf ChCancel <> None then [OCancel] else [] in
  per T0 @ per T1 @ per TW @ cancel

(* ---- enumeration of schedules ---- *)
let write_history (oc : out_channel) (g : cfg) (ops : (op * tid list) list) : unit =
  output_string oc (header_s g ^ " ; ;\n");
  List.iter (fun (o, ex) -> output_string oc (op_s o ex ^ " ; ;\n")) ops;
  output_string oc "E ; ;\n"

(* all maximal schedules; cancel_budget: number of cancel operations allowed (0 or 1) *)
let enumerate (p : prog) (g : cfg) (cancel : bool) (limit : int) (emit : (op * tid list) list -> unit) : int * bool =
  let count = ref 0 and complete = ref true in
  let rec go ms acc cancelled depth =
    if !count >= limit then complete := false
    else if depth > 400 then (emit (List.rev acc); incr count)
    else begin
      let ops = enabled_ops p ms (cancel && not cancelled) in
      let real = List.filter (fun o -> o <> OCancel) ops in
      if real = [] then begin
        (* maximal: nothing but (perhaps) a cancellation is left; with it the run goes on *)
        emit (List.rev acc); incr count
      end;
      List.iter (fun o ->
        if !count < limit || o = OCancel then
          match mstep p ms o with
          | Some (ms', _, _, extras) -> go ms' ((o, extras) :: acc) (cancelled || o = OCancel) (depth + 1)
          | None -> ()) (if real = [] then List.filter (fun o -> o = OCancel) ops else ops)
    end in
  go (mstart g) [] false 0;
  (!count, !complete)

(* one random maximal schedule *)
let random_schedule (p : prog) (g : cfg) (cancel : bool) (rng : Random.State.t) : (op * tid list) list =
  let rec go ms acc cancelled depth =
    if depth > 400 then List.rev acc else
    let ops = enabled_ops p ms (cancel && not cancelled) in
    let real = List.filter (fun o -> o <> OCancel) ops in
    (* cancellation is rarer than an ordinary step unless nothing else is left *)
    let ops = if real <> [] && Random.State.int rng 6 <> 0 then real else ops in
    if ops = [] then List.rev acc else begin
      let o = List.nth ops (Random.State.int rng (List.length ops)) in
      match mstep p ms o with
      | Some (ms', _, _, extras) -> go ms' ((o, extras) :: acc) (cancelled || o = OCancel) (depth + 1)
      | None -> List.rev acc
    end in
  go (mstart g) [] false 0

let s k = (MSend, k)
let r k = (MRecv, k)
let c_ = (MCloseSend, 0)
let h_ = (MHeader, 0)
let t_ = (MTrailer, 0)
let x_ = (MContext, 0)

(* (sender, receiver, oracle, cancellable) *)
let quick_cfgs : cfg list =
  let mk a b o c = { g_s = a; g_r = b; g_o = o; g_c = c } in
  [ mk [s 1] [r 1] [true] false;
    mk [s 1] [r 1] [false] false;
    mk [s 1; s 2] [r 1; r 2] [true] false;
    mk [s 1; s 2] [r 1] [false; true] false;
    mk [s 1; s 2] [r 1; r 2] [false; true] false;
    mk [s 1; s 2] [r 1] [false; false] false;
    mk [s 1; c_] [r 1] [true] false;
    mk [c_; s 1] [r 1] [true] false;
    mk [h_] [] [] false;
    mk [t_] [t_] [] false;
    mk [x_; s 1] [x_] [true] false;
    mk [s 1; h_] [h_] [true] false;
    mk [s 1; t_; x_] [r 1; t_] [true] false;
    mk [] [r 1] [] true;
    mk [s 1] [r 1] [true] true;
    mk [s 1] [r 1] [false] true;
    mk [s 1] [h_; r 1] [true] true;
    mk [s 1; s 2] [r 1] [false; true] true;
    mk [c_] [h_] [] true;
    mk [x_] [r 1; r 2] [] true ]

let thorough_cfgs : cfg list =
  (* every pair of scripts of at most 3 calls over a reduced alphabet, three oracles, both kinds of context *)
  let sender_calls = [s 1; c_; h_; x_] and receiver_calls = [r 1; h_; t_] in
  let rec scripts alpha n =
    if n = 0 then [[]] else
      let shorter = scripts alpha (n - 1) in
      shorter @ List.concat_map (fun sc -> if List.length sc = n - 1 then List.map (fun c -> sc @ [c]) alpha else []) shorter in
  let renumber sc = List.mapi (fun i (m, a) -> if a <> 0 then (m, i + 1) else (m, a)) sc in
  let ss = List.map renumber (scripts sender_calls 3) and rs = List.map renumber (scripts receiver_calls 3) in
  List.concat_map (fun a -> List.concat_map (fun b ->
    List.concat_map (fun o -> List.map (fun c -> { g_s = a; g_r = b; g_o = o; g_c = c }) [false; true])
      [[true]; [false; true]; [false; false; true]]) rs) ss

(* histories of corpus files: (configuration, explicit schedule) *)
let read_corpus (files : string list) : (cfg * (op * tid list) list) list =
  List.concat_map (fun f ->
    let hs = ref [] in
    List.iter (fun line ->
      if String.length line > 0 && line.[0] <> '#' then
        match split_semis line with
        | a :: _ ->
            (match a with
             | "H" :: "U" :: _ -> ()
             | "H" :: _ -> hs := (cfg_of_header a, ref []) :: !hs
             | [] -> ()
             | _ -> (match !hs with
                 | (_, ops) :: _ -> (match parse_op a with (OEnd, _) -> () | o -> ops := o :: !ops)
                 | [] -> ()))
        | [] -> ()) (read_lines f);
    List.rev_map (fun (g, ops) -> (g, List.rev !ops)) !hs) files

let do_enum (irf : string) (out : string) (tier : string) (seed : int) (maxn : int) (corpus : string list) : unit =
  let p = parse_ir irf in
  let oc = open_out out in
  let total = ref 0 and exhaustive = ref 0 and sampled = ref 0 in
  let rng = Random.State.make [| seed; 0x5712 |] in
  (* corpus first: the recorded schedule if the current program can follow it, then schedules of its configuration *)
  let ncorpus = ref 0 and nexplicit = ref 0 in
  let seen_cfg = Hashtbl.create 16 in
  List.iter (fun (g, ops) ->
    incr ncorpus;
    (* run the recorded prefix, then on to the end (first enabled operation each time) *)
    let rec finish ms acc depth =
      match List.filter (fun o -> o <> OCancel) (enabled_ops p ms false) with
      | o :: _ when depth < 400 ->
          (match mstep p ms o with
           | Some (ms', _, _, extras) -> finish ms' ((o, extras) :: acc) (depth + 1)
           | None -> List.rev acc)
      | _ -> List.rev acc in
    let rec follow ms l acc = match l with
      | [] -> Some (finish ms acc 0)
      | (o, _) :: r -> (match mstep p ms o with
          | Some (ms', _, _, extras) -> follow ms' r ((o, extras) :: acc)
          | None -> None) in
    (match follow (mstart g) ops [] with
     | Some ops' when ops' <> [] -> write_history oc g ops'; incr total; incr nexplicit
     | _ -> ());
    let key = header_s g in
    if not (Hashtbl.mem seen_cfg key) then begin
      Hashtbl.replace seen_cfg key ();
      let cap = 40 in
      let buf = ref [] in
      let (n, complete) = enumerate p g g.g_c (cap + 1) (fun ops -> buf := ops :: !buf) in
      if complete && n <= cap then List.iter (fun ops -> write_history oc g ops; incr total) (List.rev !buf)
      else begin
        let seen = Hashtbl.create 64 in
        let tries = ref 0 in
        while Hashtbl.length seen < cap && !tries < cap * 4 do
          incr tries;
          let ops = random_schedule p g g.g_c rng in
          let k = String.concat "|" (List.map (fun (o, ex) -> op_s o ex) ops) in
          if not (Hashtbl.mem seen k) then begin Hashtbl.add seen k (); write_history oc g ops; incr total end
        done
      end
    end) (read_corpus corpus);
  let from_corpus = !total in
  let plan =
    if tier = "none" then []
    else if tier = "thorough" then
      (* the built-in scripts with a large cap (most are enumerated completely), then every pair of
         scripts of at most 3 calls with a small one *)
      List.map (fun g -> (g, max 4 (maxn * 3 / 4 / List.length quick_cfgs))) quick_cfgs @
      List.map (fun g -> (g, max 4 (maxn / 4 / List.length thorough_cfgs))) thorough_cfgs
    else List.map (fun g -> (g, max 4 (maxn / List.length quick_cfgs))) quick_cfgs in
  let cfgs = List.map fst plan in
  List.iter (fun (g, per_cfg) ->
    (* enumerate completely when the space is small, sample otherwise *)
    let buf = ref [] in
    let (n, complete) = enumerate p g g.g_c (per_cfg + 1) (fun ops -> buf := ops :: !buf) in
    if complete && n <= per_cfg then begin
      List.iter (fun ops -> write_history oc g ops; incr total) (List.rev !buf);
      incr exhaustive
    end else begin
      let seen = Hashtbl.create 64 in
      let tries = ref 0 in
      while Hashtbl.length seen < per_cfg && !tries < per_cfg * 4 do
        incr tries;
        let ops = random_schedule p g g.g_c rng in
        let key = String.concat "|" (List.map (fun (o, ex) -> op_s o ex) ops) in
        if not (Hashtbl.mem seen key) then begin
          Hashtbl.add seen key (); write_history oc g ops; incr total
        end
      done;
      incr sampled
    end) plan;
  close_out oc;
  Printf.printf "enum schedules=%d configs=%d exhaustive_configs=%d sampled_configs=%d corpus_histories=%d corpus_replayed_verbatim=%d corpus_schedules=%d\n"
    !total (List.length cfgs) !exhaustive !sampled !ncorpus !nexplicit from_corpus

(* ---- check: exploration of the core system ---- *)
let key_of (s : core) : string = Marshal.to_string s [Marshal.No_sharing]

let do_check (irf : string) (witness : string option) : unit =
  let p = parse_ir irf in
  let seen : (string, core * (string * label) option) Hashtbl.t = Hashtbl.create 50000 in
  let q = Queue.create () in
  List.iter (fun s -> Hashtbl.replace seen (key_of s) (s, None); Queue.add s q) inits;
  let ntrans = ref 0 in
  let bad = ref None in
  let path_to (s : core) : string list =
    let rec go k acc =
      match Hashtbl.find seen k with
      | (_, None) -> acc
      | (_, Some (pk, l)) -> go pk (label_s l :: acc) in
    go (key_of s) [] in
  (try
     while not (Queue.is_empty q) do
       let s = Queue.pop q in
       if not (state_ok p s) then begin
         bad := Some ("state", path_to s,
                      "nothing internal is enabled but a thread is blocked: " ^
                      String.concat " " (List.map (fun t -> tid_s t ^ "=" ^ instr_head s t) all_tids) ^
                      Printf.sprintf " stream=%b err=%b ctx-done=%b mutex=%s" s.stream s.err s.cdone
                        (match s.mu with None -> "free" | Some t -> tid_s t));
         raise Exit
       end;
       List.iter (fun (l, s') ->
         incr ntrans;
         if not (trans_ok s l s') then begin
           bad := Some ("step", path_to s @ [label_s l], "the step " ^ label_s l ^ " is refused by the monitor / mutex discipline");
           raise Exit
         end;
         let k = key_of s' in
         if not (Hashtbl.mem seen k) then begin
           Hashtbl.replace seen k (s', Some (key_of s, l)); Queue.add s' q
         end) (next p s)
     done
   with Exit -> ());
  (* cycle of internal steps = a schedule under which a call never ends *)
  let cyc = ref None in
  if !bad = None then begin
    let color : (string, int) Hashtbl.t = Hashtbl.create 50000 in
    let rec dfs (s : core) (stack : string list) : unit =
      if !cyc = None then begin
        let k = key_of s in
        match Hashtbl.find_opt color k with
        | Some 2 -> ()
        | Some 1 -> cyc := Some (List.rev stack)
        | _ ->
            Hashtbl.replace color k 1;
            List.iter (fun (l, s') -> if internal l then dfs s' (label_s l :: stack)) (next p s);
            Hashtbl.replace color k 2
      end in
    Hashtbl.iter (fun _ (s, _) -> if !cyc = None && not (Hashtbl.mem color (key_of s)) then dfs s []) seen
  end;
  (match !bad, !cyc with
   | None, None -> Printf.printf "check ok states=%d transitions=%d\n" (Hashtbl.length seen) !ntrans
   | Some (kind, path, what), _ ->
       Printf.printf "check FAIL kind=%s states_seen=%d\nwhat: %s\npath: %s\n" kind (Hashtbl.length seen) what
         (String.concat " ; " path)
   | None, Some path ->
       Printf.printf "check FAIL kind=cycle states_seen=%d\nwhat: internal steps can go on forever (a call that never returns without blocking)\npath: %s\n"
         (Hashtbl.length seen) (String.concat " ; " path));
  (* a schedule at yield-point granularity that the monitor rejects *)
  match witness with
  | None -> ()
  | Some out ->
      let found = ref [] in
      let kinds : (string, unit) Hashtbl.t = Hashtbl.create 8 in
      let visited : (string, unit) Hashtbl.t = Hashtbl.create 10000 in
      let q = Queue.create () in
      (* a state of the search: model state with unbounded scripts: any call may start *)
      let start canc = ({ conf = conf0 canc; rem0 = []; rem1 = []; orc = [] }, [], [], [], canc) in
      Queue.add (start false) q; Queue.add (start true) q;
      let calls t = calls_of t in
      let nsteps = ref 0 in
      let record ops s0 s1 canc (ms : mstate) =
        let (what, _) = describe_failure ms.conf.c_log (stuck_all ms.conf) in
        if not (Hashtbl.mem kinds what) && Hashtbl.length kinds < 8 then begin
          Hashtbl.replace kinds what ();
          found := (what, ops, s0, s1, canc, ms) :: !found
        end in
      while not (Queue.is_empty q) && !nsteps < 400000 do
        let (ms, ops, s0, s1, canc) = Queue.pop q in
        incr nsteps;
        (* candidate operations: steps, new calls (scripts of at most 3 calls), oracle both ways, cancel *)
        let steps = List.concat_map (fun t ->
          match site_of ms.conf.c_s t with
          | SIdle ->
              if t = TW then [] else
              let used = List.length (if t = T0 then s0 else s1) in
              if used >= 3 then [] else
              List.map (fun m -> (OCall (t, (m, (if m = MSend || m = MRecv then used + 1 else 0))), true)) (calls t)
          | st ->
              if enabled_step p ms.conf t then
                (if at_streamer ms.conf t then [(OStep (t, site_s st), true); (OStep (t, site_s st), false)]
                 else [(OStep (t, site_s st), true)])
              else []) all_tids in
        let steps = steps @ (if macro p ms.conf ChCancel <> None then [(OCancel, true)] else []) in
        (* quiescent: final check *)
        let internal_left = List.exists (fun (o, _) -> match o with OStep _ -> true | _ -> false) steps in
        if not internal_left && not (c12_final_ok ms.conf.c_log (stuck_all ms.conf)) then
          record ops s0 s1 canc ms;
        List.iter (fun (o, ok) ->
          let ms_in = (match o with
            | OCall (T0, c) -> { ms with rem0 = [c] }
            | OCall (_, c) -> { ms with rem1 = [c] }
            | OStep _ -> { ms with orc = [ok] }
            | _ -> ms) in
          match mstep p ms_in o with
          | None -> ()
          | Some (ms', _, _, extras) ->
              let ops' = (o, extras, ok) :: ops in
              let s0' = (match o with OCall (T0, c) -> c :: s0 | _ -> s0) in
              let s1' = (match o with OCall (T1, c) -> c :: s1 | _ -> s1) in
              if not (c12_ok ms'.conf.c_log) then record ops' s0' s1' canc ms'
              else begin
                let k = key_of ms'.conf.c_s ^ string_of_int (List.length s0') ^ string_of_int (List.length s1') in
                if not (Hashtbl.mem visited k) then begin
                  Hashtbl.replace visited k ();
                  Queue.add ({ ms' with rem0 = []; rem1 = []; orc = [] }, ops', s0', s1', canc) q
                end
              end) steps
      done;
      (match List.rev !found with
       | [] -> Printf.printf "witness none\n"
       | l ->
           let oc = open_out out in
           List.iter (fun (what, ops, s0, s1, canc, (ms : mstate)) ->
             let ops = List.rev ops in
             let oracle = List.filter_map (fun (o, _, ok) ->
               match o with OStep (_, "streamer") -> Some ok | _ -> None) ops in
             let g = { g_s = List.rev s0; g_r = List.rev s1; g_o = oracle; g_c = canc } in
             write_history oc g (List.map (fun (o, ex, _) -> (o, ex)) ops);
             Printf.printf "witness %s what=%s log: %s\n" out what
               (String.concat " " (List.map event_s ms.conf.c_log))) l;
           close_out oc)

(* ---- unary cases ---- *)
let kv (s : string) : string * string =
  match String.index_opt s '=' with
  | Some i -> (String.sub s 0 i, String.sub s (i + 1) (String.length s - i - 1))
  | None -> raise (Bad ("kv " ^ s))

let ints (s : string) : nat list =
  if s = "-" then [] else List.map (fun x -> nat_of_int (int_of_string x)) (String.split_on_char ',' s)

let ukey_of (s : string) : ukey = if s = "G" then KGcp else KUser (nat_of_int (int_of_string s))

let uval_of_s (s : string) : uval option =
  (* none | v<n> | g<req>_<reply> *)
  if s = "none" then None
  else if s.[0] = 'v' then Some (UVal (nat_of_int (int_of_string (String.sub s 1 (String.length s - 1)))))
  else if s.[0] = 'g' then
    (match String.split_on_char '_' (String.sub s 1 (String.length s - 1)) with
     | [a; b] -> Some (UGcp (nat_of_int (int_of_string a), nat_of_int (int_of_string b)))
     | _ -> raise (Bad ("uval " ^ s)))
  else raise (Bad ("uval " ^ s))

let bindings (s : string) : (string * string) list =
  if s = "-" then [] else
  List.map (fun b -> match String.split_on_char ':' b with
    | [k; v] -> (k, v) | _ -> raise (Bad ("binding " ^ b))) (String.split_on_char ',' s)

let parse_unary (inp : string list) (out : string list) : ucall * useen =
  let fi = List.map kv inp and fo = List.map kv out in
  let g l k = try List.assoc k l with Not_found -> raise (Bad ("unary field " ^ k)) in
  let n l k = nat_of_int (int_of_string (g l k)) in
  let ctx = List.map (fun (k, v) -> (ukey_of k, match uval_of_s v with Some x -> x | None -> raise (Bad "ctx none")))
      (bindings (g fi "x")) in
  ({ u_ctx = ctx; u_method = n fi "m"; u_req = n fi "q"; u_reply = n fi "p"; u_cc = n fi "c";
     u_opts = ints (g fi "o"); u_err = n fi "e" },
   { s_called = n fo "n"; s_method = n fo "m"; s_req = n fo "q"; s_reply = n fo "p"; s_cc = n fo "c";
     s_opts = ints (g fo "o"); s_values = List.map (fun (k, v) -> (ukey_of k, uval_of_s v)) (bindings (g fo "v"));
     s_ret = n fo "r" })

(* ---- trace comparison ---- *)
type hist = {
  h_line : int;
  h_head : string list;
  h_out : string list;                 (* output part of the H line (unary cases) *)
  mutable h_rows : (string list * string list * string list) list;   (* reversed *)
}

(* streams the histories of a trace file *)
let each_history (path : string) (f : hist -> unit) : unit =
  let ic = open_in path in
  let cur = ref None in
  let flush () = (match !cur with Some h -> f h | None -> ()); cur := None in
  let ln = ref 0 in
  (try
     while true do
       let line = input_line ic in
       incr ln;
       if String.length line > 0 && line.[0] <> '#' then
         match split_semis line with
         | [a; b; c] ->
             (match a with
              | "H" :: _ -> flush (); cur := Some { h_line = !ln; h_head = a; h_out = b; h_rows = [] }
              | _ -> (match !cur with
                  | Some h -> h.h_rows <- (a, b, c) :: h.h_rows
                  | None -> raise (Bad "row before H")))
         | _ -> raise (Bad ("line " ^ string_of_int !ln))
     done
   with End_of_file -> ());
  flush ();
  close_in ic

(* events of the implementation, from one row *)
let impl_events (o : op) (out : string list) (obs : string list) : event list =
  let of_obs (s : string) : event list =
    match String.split_on_char ':' s with
    | ["C"; t; m; n; k] ->
        [ECreate (tid_of t, (if m = "-" then None else
                               (match int_of_string_opt m with Some v -> Some (nat_of_int v) | None -> Some (nat_of_int 999))),
                  nat_of_int (int_of_string n), k = "k")]
    | ["D"; t; m; a] -> [EDeleg (tid_of t, meth_of m, nat_of_int (match int_of_string_opt a with Some v -> v | None -> 999))]
    | "A!" :: t :: _ -> [EBad (tid_of t)]      (* the streamer got other desc/cc/method/opts *)
    | _ -> raise (Bad ("obs " ^ s)) in
  let evs = List.concat_map of_obs obs in
  let of_status (t : tid) (st : string) : event list =
    if String.length st >= 4 && String.sub st 0 4 = "ret:" then [ERet (t, rval_of (String.sub st 4 (String.length st - 4)))]
    else if st = "panic" then [EPanic t]
    else if st = "deleg:changed" then [EBad t]
    else [] in
  match o with
  | OCall (t, (m, a)) ->
      ECall (t, m, nat_of_int a) :: evs @ (match out with st :: _ -> of_status t st | [] -> [])
  | OStep (t, _) -> evs @ (match out with st :: _ -> of_status t st | [] -> [])
  | OCancel -> ECancel :: evs
  | OEnd -> []
  | OBegin (t, (m, a)) -> evs @ [ECall (t, m, nat_of_int a)]
  | OFinish t -> evs @ (match out with st :: _ -> of_status t st | [] -> [])

(* The end-of-run claim (nobody is left waiting for nothing) is only made when the run is
   at rest: a goroutine still parked at a yield point has steps left (the schedule is a
   prefix), so nothing can be said yet about those it may still wake. *)
let impl_stuck (out : string list) (cancelled : bool) (at_rest : bool option) : stuck list =
  let sts = List.filter_map (fun s ->
    match String.index_opt s ':' with
    | None -> None
    | Some i -> Some (tid_of (String.sub s 0 i), String.sub s (i + 1) (String.length s - i - 1))) out in
  (* while the model follows the run it knows whether a parked goroutine can move at all *)
  let pending = (match at_rest with
    | Some b -> not b
    | None -> List.exists (fun (t, st) ->
        String.length st > 5 && String.sub st 0 5 = "park:" && not (t = TW && st = "park:await" && not cancelled)) sts) in
  if pending then [] else
  List.concat_map (fun (t, st) ->
    match st, t with
    | ("idle" | "fin" | "none"), _ -> []
    | "inwait", TW -> [StuckOther t]
    | "inwait", _ -> [StuckWait t]
    | "park:await", TW -> if cancelled then [StuckOther t] else []
    | _, _ -> [StuckOther t]) sts

type verdict = {
  v_acc : (int * string) option;
  v_mon : bool;
  v_fail : int;
  v_events : event list;
  v_stuck : stuck list;
  v_kind : string;
}

let classify (exp : string list) (got : string list) (eobs : string list) (gobs : string list) : string option =
  if exp = got && eobs = gobs then None
  else if List.exists (fun s -> s = "timeout" || (String.length s > 8 && String.sub s (String.length s - 7) 7 = "timeout")) got then Some "stuck"
  else if List.exists (fun s -> s = "panic") got || List.exists (fun s -> s = "panic") exp then Some "panic"
  else if eobs <> gobs then Some "events"
  else
    let isret s = String.length s >= 4 && String.sub s 0 4 = "ret:" in
    if List.exists isret got || List.exists isret exp then Some "ret" else Some "site"

let judge_stream (p : prog option) (h : hist) : verdict =
  let g = cfg_of_header h.h_head in
  let rows = List.rev h.h_rows in
  let events = ref [] and stuck = ref [] and cancelled = ref false in
  let acc = ref None in
  let ms = ref (mstart g) in
  let model_alive = ref (p <> None) in
  List.iteri (fun i (a, out, obs) ->
    match a with
    | "F" :: _ ->
        (* free-running (unscheduled) history: events only, in the obs part as printed by event tokens *)
        ()
    | _ ->
        let (o, _) = parse_op a in
        if o = OCancel then cancelled := true;
        (match out with "div" :: _ -> if !acc = None then acc := Some (i, "harness") | _ -> ());
        events := !events @ impl_events o out obs;
        if o = OEnd then begin
          let at_rest = (match p with
            | Some p when !model_alive && !acc = None ->
                Some (not (List.exists (fun o -> match o with OStep _ -> true | _ -> false) (enabled_ops p !ms false)))
            | _ -> None) in
          stuck := impl_stuck out !cancelled at_rest
        end;
        (match p with
         | Some p when !model_alive && !acc = None ->
             (match mstep p !ms o with
              | None -> acc := Some (i, "schedule"); model_alive := false
              | Some (ms', eout, eobs, _) ->
                  ms := ms';
                  (match classify eout out eobs obs with
                   | None -> ()
                   | Some cls -> acc := Some (i, (if o = OEnd then "final" else cls)); model_alive := false))
         | _ -> ())) rows;
  let ok = c12_final_ok !events !stuck in
  let fail = (match mon_fail_at mst_init !events O with Some n -> int_of_nat n | None -> if ok then -1 else List.length !events) in
  { v_acc = !acc; v_mon = ok; v_fail = fail; v_events = !events; v_stuck = !stuck; v_kind = "stream" }

let judge_unary (h : hist) : verdict * (ucall * useen) =
  let inp = (match h.h_head with "H" :: "U" :: r -> r | _ -> raise (Bad "unary header")) in
  let (u, o) = parse_unary inp h.h_out in
  let acc = if unary_accept u o then None else Some (0, "unary") in
  ({ v_acc = acc; v_mon = unary_ok u o; v_fail = (if unary_ok u o then -1 else 0); v_events = []; v_stuck = [];
     v_kind = "unary" }, (u, o))

(* ---- Coq terms for the cross-check ---- *)
let rec coq_nat (n : nat) : string = string_of_int (int_of_nat n)
let coq_tid = function T0 -> "T0" | T1 -> "T1" | TW -> "TW"
let coq_meth = function
  | MSend -> "MSend" | MRecv -> "MRecv" | MCloseSend -> "MCloseSend" | MHeader -> "MHeader"
  | MTrailer -> "MTrailer" | MContext -> "MContext"
let coq_bool b = if b then "true" else "false"
let coq_event (e : event) : string =
  match e with
  | ECall (t, m, a) -> Printf.sprintf "ECall %s %s %s" (coq_tid t) (coq_meth m) (coq_nat a)
  | ECreate (t, cm, n, ok) ->
      Printf.sprintf "ECreate %s %s %s %s" (coq_tid t)
        (match cm with Some a -> "(Some " ^ coq_nat a ^ ")" | None -> "None") (coq_nat n) (coq_bool ok)
  | EDeleg (t, m, a) -> Printf.sprintf "EDeleg %s %s %s" (coq_tid t) (coq_meth m) (coq_nat a)
  | ERet (t, v) ->
      Printf.sprintf "ERet %s %s" (coq_tid t)
        (match v with VNil -> "VNil" | VErr k -> "(VErr " ^ coq_nat k ^ ")" | VCtxErr -> "VCtxErr"
                    | VCallCtx -> "VCallCtx" | VOther -> "VOther")
  | EPanic t -> "EPanic " ^ coq_tid t
  | EBad t -> "EBad " ^ coq_tid t
  | ECancel -> "ECancel"
let coq_stuck = function StuckWait t -> "StuckWait " ^ coq_tid t | StuckOther t -> "StuckOther " ^ coq_tid t
let coq_list f l = "[" ^ String.concat "; " (List.map f l) ^ "]"
let coq_ukey = function KGcp -> "KGcp" | KUser n -> "KUser " ^ coq_nat n
let coq_uval = function UVal n -> "UVal " ^ coq_nat n | UGcp (a, b) -> Printf.sprintf "UGcp %s %s" (coq_nat a) (coq_nat b)
let coq_ucall (u : ucall) : string =
  Printf.sprintf "{| u_ctx := %s; u_method := %s; u_req := %s; u_reply := %s; u_cc := %s; u_opts := %s; u_err := %s |}"
    (coq_list (fun (k, v) -> "(" ^ coq_ukey k ^ ", " ^ coq_uval v ^ ")") u.u_ctx) (coq_nat u.u_method) (coq_nat u.u_req)
    (coq_nat u.u_reply) (coq_nat u.u_cc) (coq_list coq_nat u.u_opts) (coq_nat u.u_err)
let coq_useen (o : useen) : string =
  Printf.sprintf "{| s_called := %s; s_method := %s; s_req := %s; s_reply := %s; s_cc := %s; s_opts := %s; s_values := %s; s_ret := %s |}"
    (coq_nat o.s_called) (coq_nat o.s_method) (coq_nat o.s_req) (coq_nat o.s_reply) (coq_nat o.s_cc)
    (coq_list coq_nat o.s_opts)
    (coq_list (fun (k, v) -> "(" ^ coq_ukey k ^ ", " ^ (match v with Some x -> "Some (" ^ coq_uval x ^ ")" | None -> "None") ^ ")") o.s_values)
    (coq_nat o.s_ret)

let do_trace (trace : string) (irf : string option) (coq : (string * int * int) option) : unit =
  let p = (match irf with Some f -> Some (parse_ir f) | None -> None) in
  let stride, maxn = (match coq with Some (_, maxn, total) -> (max 1 (total / (max 1 maxn)), maxn) | None -> (1, 0)) in
  let oc = (match coq with
    | Some (file, _, _) ->
        let oc = open_out file in
        output_string oc "From Coq Require Import List Bool Arith.\nFrom GV Require Import Stream.Sem Stream.Monitors Stream.Unary.\nImport ListNotations.\n";
        Some oc
    | None -> None) in
  let k = ref 0 and i = ref 0 in
  each_history trace (fun h ->
    let (v, un) =
      (match h.h_head with
       | "H" :: "U" :: _ -> let (v, x) = judge_unary h in (v, Some x)
       | _ -> (judge_stream p h, None)) in
    let (what, known) =
      if v.v_mon then ("-", "") else if v.v_kind = "unary" then ("unary-not-transparent", "")
      else describe_failure v.v_events v.v_stuck in
    Printf.printf "hist %d line %d nev %d acc %s m:c12 %d %d f:kind_%s 1%s w:%s\n" !i h.h_line (List.length h.h_rows)
      (match v.v_acc with None -> "ok" | Some (k, cls) -> Printf.sprintf "div %d %s" k cls)
      (if v.v_mon then 1 else 0) v.v_fail v.v_kind (if known <> "" then " f:k_" ^ known ^ " 1" else "") what;
    (match oc with
     | Some oc when !i mod stride = 0 && !k < maxn ->
         (match un with
          | Some (u, o) ->
              Printf.fprintf oc "Definition case_%d : bool * bool := (andb (unary_ok (%s) (%s)) true, %s).\n" !k
                (coq_ucall u) (coq_useen o) (coq_bool v.v_mon)
          | None ->
              Printf.fprintf oc "Definition case_%d : bool * bool := (C12_final_ok %s %s, %s).\n" !k
                (coq_list coq_event v.v_events) (coq_list coq_stuck v.v_stuck) (coq_bool v.v_mon));
         incr k
     | _ -> ());
    incr i);
  match oc with
  | Some oc ->
      Printf.fprintf oc "Definition all_cases : list (nat * (bool * bool)) := [%s].\n"
        (String.concat "; " (List.init !k (fun j -> Printf.sprintf "(%d, case_%d)" j j)));
      output_string oc "Definition mismatches : list nat :=\n  Eval vm_compute in map fst (filter (fun c => negb (Bool.eqb (fst (snd c)) (snd (snd c)))) all_cases).\nPrint mismatches.\n";
      close_out oc
  | None -> ()

let () =
  try
    match Array.to_list Sys.argv with
    | _ :: "check" :: ir :: rest -> do_check ir (match rest with w :: _ -> Some w | [] -> None)
    | _ :: "enum" :: ir :: out :: tier :: seed :: maxn :: corpus ->
        do_enum ir out tier (int_of_string seed) (int_of_string maxn) corpus
    | _ :: trace :: rest ->
        let rec opts l ir coq = match l with
          | "--ir" :: f :: r -> opts r (Some f) coq
          | "--coq" :: f :: n :: total :: r -> opts r ir (Some (f, int_of_string n, int_of_string total))
          | [] -> (ir, coq)
          | x :: _ -> raise (Bad ("argument " ^ x)) in
        let (ir, coq) = opts rest None None in
        do_trace trace ir coq
    | _ -> prerr_endline "usage: stream_driver check <ir> [witness.hist] | enum <ir> <out> <tier> <seed> <max> | <trace> [--ir <ir>] [--coq <file> <max> <total>]"; exit 2
  with Bad m -> prerr_endline ("stream_driver: " ^ m); exit 3
