#!/bin/sh
# builds the engine "keys" (C11) driver from the extracted model; run from anywhere
set -e
cd "$(dirname "$0")"
for f in Model Spec Monitors; do
  if [ ! -f ../../coq/Keys/$f.vo ] || [ ../../coq/Keys/$f.v -nt ../../coq/Keys/$f.vo ]; then
    ( cd ../../coq/Keys && coqc -Q .. GV $f.v >/dev/null )
  fi
done
coqc -Q ../../coq GV ../../coq/Extract/ExtractKEYS.v >/dev/null
( echo "open Keys_model"; cat ../common/conv.ml keys_driver_body.ml ) > keys_driver.ml
ocamlfind ocamlopt -O2 -w -a keys_model.mli keys_model.ml keys_driver.ml -o keys_driver 2>/dev/null || \
ocamlfind ocamlopt -w -a keys_model.mli keys_model.ml keys_driver.ml -o keys_driver
