(* Driver for engine "keys" (C11): parses the trace written by the Go harness
   (one case per line), runs the extracted model, reference traversal and
   monitors on each case and prints one verdict line per case.  With
   --coq <file> <max> it also writes a Coq file re-evaluating a sample of the
   cases with vm_compute. *)
exception Bad of string

let bytes_of_raw (s : string) : bytes =
  List.init (String.length s) (fun i -> n_of_int (Char.code s.[i]))

let hexval c = match c with
  | '0' .. '9' -> Char.code c - 48
  | 'a' .. 'f' -> Char.code c - 87
  | 'A' .. 'F' -> Char.code c - 55
  | _ -> raise (Bad "hex digit")

(* `-` = empty, `'text` = literal text, otherwise hex *)
let bytes_of_token (t : string) : bytes =
  if t = "-" then []
  else if String.length t > 0 && t.[0] = '\'' then bytes_of_raw (String.sub t 1 (String.length t - 1))
  else begin
    if String.length t mod 2 <> 0 then raise (Bad ("odd hex token " ^ t));
    List.init (String.length t / 2) (fun i -> n_of_int (16 * hexval t.[2 * i] + hexval t.[2 * i + 1]))
  end

(* ---- token stream ---- *)
type stream = { mutable toks : string list }
let next st = match st.toks with
  | t :: r -> st.toks <- r; t
  | [] -> raise (Bad "unexpected end of tokens")
let next_int st = match int_of_string_opt (next st) with
  | Some n when n >= 0 -> n
  | _ -> raise (Bad "count expected")

(* type descriptors carry no information for the model: skip them *)
let rec skip_type st =
  match next st with
  | "s" | "i" | "u" -> ()
  | "p" | "l" -> skip_type st
  | "a" -> ignore (next_int st); skip_type st
  | "m" -> skip_type st; skip_type st
  | "t" -> let n = next_int st in for _ = 1 to n do ignore (next st); skip_type st done
  | t when String.length t > 1 && t.[0] = 'o' -> ()
  | t -> raise (Bad ("type token " ^ t))

let opaque_kind k = (k >= 1 && k <= 16) || k = 18 || k = 19 || k = 26

let pruned = ref false

let rec parse_value st : gval =
  match next st with
  | "I" -> VInvalid
  | "S" -> VString (bytes_of_token (next st))
  | "O" -> let k = next_int st in
      if not (opaque_kind k) then raise (Bad ("kind " ^ string_of_int k ^ " is not opaque"));
      VOther (n_of_int k)
  | "P0" -> skip_type st; VPtr None
  | "P1" -> VPtr (Some (parse_value st))
  | "N0" -> VIface None
  | "N1" -> VIface (Some (parse_value st))
  | "T" ->
      let n = next_int st in
      let rec fields k = if k = 0 then [] else begin
        let name = bytes_of_token (next st) in
        let anon = (match next st with "0" -> false | "1" -> true | _ -> raise (Bad "anon flag")) in
        let v =
          (match st.toks with
           | "Z" :: _ ->
               ignore (next st);
               let k = next_int st in
               (* contents not dumped: allowed only where no locator can reach
                  (Proofs.same_after_erase): lower-case initial *)
               (match name with
                | c :: _ when int_of_n c >= 97 && int_of_n c <= 122 -> ()
                | _ -> raise (Bad "pruned field without lower-case initial"));
               pruned := true;
               VOther (n_of_int k)
           | _ -> parse_value st) in
        let rest = fields (k - 1) in
        ((name, anon), v) :: rest end in
      VStruct (fields n)
  | "L" -> skip_type st; let n = next_int st in VSlice (parse_list st n)
  | "A" -> skip_type st; let n = next_int st in VArray (parse_list st n)
  | "M" -> skip_type st; skip_type st;
      let n = next_int st in
      let rec ents k = if k = 0 then [] else begin
        let a = parse_value st in let b = parse_value st in
        let rest = ents (k - 1) in (a, b) :: rest end in
      VMap (ents n)
  | t -> raise (Bad ("value token " ^ t))
and parse_list st n =
  if n = 0 then [] else begin
    let v = parse_value st in
    let rest = parse_list st (n - 1) in
    v :: rest end

type case =
  | CKeys of string * bytes * gval * impl_result * bool * string
      (* stream, locator, value, result, pruned, digest of the input tokens *)
  | CTitle of bytes * bytes
  | CSplit of bytes * bytes list

let parse_result (t : string list) : impl_result =
  match t with
  | kind :: n :: ks ->
      let n = int_of_string n in
      if List.length ks <> n then raise (Bad "key count");
      let keys = List.map bytes_of_token ks in
      (match kind with
       | "P" -> { ir_panic = true; ir_err = false; ir_keys = keys }
       | "E" -> { ir_panic = false; ir_err = true; ir_keys = keys }
       | "O" -> { ir_panic = false; ir_err = false; ir_keys = keys }
       | _ -> raise (Bad "result kind"))
  | _ -> raise (Bad "result")

(* a line is `H K ..`, `H T ..`, `H S ..` (starts a history) or `K ..` (a
   further call in the same process, same history) *)
let parse_case (line : string) : bool * case =
  match split_on ";" (tokens line) with
  | [opt; outt; _] ->
      let (starts, opt) = (match opt with
        | "H" :: r -> (true, r)
        | "K" :: _ -> (false, opt)
        | _ -> raise (Bad "case")) in
      (starts,
       match opt with
       | "K" :: stream :: loc :: origin ->
           let vt = (match origin with
             | "G" :: r -> r
             | "X" :: _ :: _ :: r -> r
             | _ -> raise (Bad "origin")) in
           let st = { toks = vt } in
           pruned := false;
           let v = parse_value st in
           if st.toks <> [] then raise (Bad "trailing value tokens");
           CKeys (stream, bytes_of_token loc, v, parse_result outt, !pruned,
                  Digest.string (String.concat " " (loc :: origin)))
       | ["T"; inp] when starts ->
           (match outt with [o] -> CTitle (bytes_of_token inp, bytes_of_token o) | _ -> raise (Bad "title output"))
       | ["S"; inp] when starts ->
           (match outt with
            | n :: ps when List.length ps = int_of_string n -> CSplit (bytes_of_token inp, List.map bytes_of_token ps)
            | _ -> raise (Bad "split output"))
       | _ -> raise (Bad "case"))
  | _ -> raise (Bad "fields")

let class_name = function
  | DPanic -> "panic" | DError -> "error" | DKeys -> "keys" | DErrKeys -> "errkeys"

(* verdict on one case *)
type verdict = {
  v_acc : string option;     (* divergence class, None = the model reproduces the result *)
  v_mon : bool;
  v_oom : bool; v_embnil : bool; v_pruned : bool; v_fan : int;
}

(* ---- Coq term printers ---- *)
(* a byte string as (hx <length> 0x<hex digits>): one numeral instead of a list of numerals
   (an order of magnitude cheaper for coqc to parse); hx is defined in the generated file *)
let cbytes (b : bytes) =
  if b = [] then "nil"
  else Printf.sprintf "(hx %d 0x%s)" (List.length b)
      (String.concat "" (List.map (fun x -> Printf.sprintf "%02x" (int_of_n x)) b))
(* explicit constructors: deeply nested [ ; ] and ( , ) notations are very slow to parse *)
let clist f l = List.fold_right (fun x acc -> "(cons " ^ f x ^ " " ^ acc ^ ")") l "nil"
let rec cval (v : gval) : string =
  match v with
  | VInvalid -> "VInvalid"
  | VString s -> "(VString " ^ cbytes s ^ ")"
  | VOther k -> "(VOther " ^ string_of_int (int_of_n k) ^ ")"
  | VPtr None -> "(VPtr None)"
  | VPtr (Some x) -> "(VPtr (Some " ^ cval x ^ "))"
  | VIface None -> "(VIface None)"
  | VIface (Some x) -> "(VIface (Some " ^ cval x ^ "))"
  | VStruct fs -> "(VStruct " ^ clist (fun ((n, a), x) -> Printf.sprintf "(pair (pair %s %b) %s)" (cbytes n) a (cval x)) fs ^ ")"
  | VSlice l -> "(VSlice " ^ clist cval l ^ ")"
  | VArray l -> "(VArray " ^ clist cval l ^ ")"
  | VMap l -> "(VMap " ^ clist (fun (a, b) -> "(pair " ^ cval a ^ " " ^ cval b ^ ")") l ^ ")"
let cres (r : impl_result) = Printf.sprintf "(mkRes %b %b %s)" r.ir_panic r.ir_err (clist cbytes r.ir_keys)

let () =
  let path = Sys.argv.(1) in
  let coq_out = if Array.length Sys.argv > 3 && Sys.argv.(2) = "--coq" then Some (open_out Sys.argv.(3)) else None in
  let coq_max = if Array.length Sys.argv > 4 then int_of_string Sys.argv.(4) else 100 in
  (* (line number, text) of the case lines; tail-recursive, traces have 10^5..10^6 lines *)
  let lines =
    let (_, acc) = List.fold_left (fun (ln, acc) l ->
      (ln + 1, if String.length l > 0 && l.[0] <> '#' then (ln, l) :: acc else acc)) (1, []) (read_lines path) in
    List.rev acc in
  let total = List.length lines in
  let stride = if coq_max <= 0 then max_int else max 1 (total / coq_max) in
  let coq_cases = ref [] in
  let ncoq = ref 0 in
  let summary = Hashtbl.create 16 in
  let bump k = Hashtbl.replace summary k (1 + (try Hashtbl.find summary k with Not_found -> 0)) in
  (* history independence: input digest -> first result seen in this run *)
  let seen : (string, impl_result) Hashtbl.t = Hashtbl.create 100003 in
  let caseno = ref 0 in
  let eval (c : case) : verdict =
    let i = !caseno in
    incr caseno;
    let sample = coq_out <> None && i mod stride = 0 && !ncoq < coq_max in
    let add body = incr ncoq; coq_cases := (i, body) :: !coq_cases in
    match c with
    | CKeys (stream, loc, v, res, pr, dg) ->
        let inm = in_model v loc in
        let mon = c11_monitor v loc res in
        let acc = if inm then acc_class v loc res else None in
        let same = (match Hashtbl.find_opt seen dg with
          | None -> Hashtbl.add seen dg res; true
          | Some first -> same_result first res) in
        bump ("stream " ^ stream ^ (if inm then "" else " (out of model)"));
        if sample then add (Printf.sprintf "case_keys %s %s %s %b %b %b" (cval v) (cbytes loc) (cres res) inm (acc = None) mon);
        { v_acc = (match acc with Some d -> Some (class_name d) | None -> if same then None else Some "history");
          v_mon = mon && same; v_oom = not inm; v_embnil = has_nil_anon_ptr v; v_pruned = pr;
          v_fan = int_of_nat (fanouts (split_dot loc) v) }
    | CTitle (inp, out) ->
        let inm = ascii inp in
        let ok = (not inm) || title_ok inp out in
        bump ("title" ^ (if inm then "" else " (out of model)"));
        if sample && inm then add (Printf.sprintf "Bool.eqb (title_ok %s %s) %b" (cbytes inp) (cbytes out) ok);
        { v_acc = (if ok then None else Some "title"); v_mon = true; v_oom = not inm; v_embnil = false; v_pruned = false; v_fan = 0 }
    | CSplit (inp, out) ->
        let ok = split_ok inp out in
        bump "split";
        if sample then add (Printf.sprintf "Bool.eqb (split_ok %s %s) %b" (cbytes inp) (clist cbytes out) ok);
        { v_acc = (if ok then None else Some "split"); v_mon = true; v_oom = false; v_embnil = false; v_pruned = false; v_fan = 0 } in
  (* histories: a starting line and the event lines after it *)
  let hist_no = ref 0 in
  let flush (hln : int) (vs : verdict list) =   (* vs in order: header case, then events *)
    match vs with
    | [] -> ()
    | _ ->
        let nev = List.length vs - 1 in
        (* position in the operation list (header = 0, k-th event = k+1) of the first divergence *)
        let rec first_div k = function
          | [] -> None
          | v :: r -> (match v.v_acc with Some c -> Some (k, c) | None -> first_div (k + 1) r) in
        (* index of the first failing EVENT (0-based), -1 if the header case fails or nothing fails *)
        let rec first_fail k = function
          | [] -> None
          | v :: r -> if v.v_mon then first_fail (k + 1) r else Some k in
        let ff = first_fail 0 vs in
        let sum f = List.fold_left (fun a v -> a + f v) 0 vs in
        let b2i b = if b then 1 else 0 in
        Printf.printf "hist %d line %d nev %d acc %s m:c11 %d %d f:outofmodel %d f:embnil %d f:pruned %d f:fanouts %d\n"
          !hist_no hln nev
          (match first_div 0 vs with None -> "ok" | Some (k, c) -> Printf.sprintf "div %d %s" k c)
          (match ff with None -> 1 | Some _ -> 0)
          (match ff with None -> -1 | Some k -> k - 1)
          (sum (fun v -> b2i v.v_oom)) (sum (fun v -> b2i v.v_embnil)) (sum (fun v -> b2i v.v_pruned)) (sum (fun v -> v.v_fan));
        incr hist_no in
  let cur_line = ref 0 in
  let cur = ref [] in
  List.iter (fun (ln, line) ->
    let (starts, c) = (try parse_case line with
             | Bad m -> prerr_endline (Printf.sprintf "line %d: %s" ln m); exit 2
             | Failure m -> prerr_endline (Printf.sprintf "line %d: %s" ln m); exit 2) in
    if starts then begin
      flush !cur_line (List.rev !cur);
      cur := []; cur_line := ln
    end else if !cur = [] then begin
      prerr_endline (Printf.sprintf "line %d: event before any history" ln); exit 2
    end;
    cur := eval c :: !cur
  ) lines;
  flush !cur_line (List.rev !cur);
  Hashtbl.iter (fun k n -> prerr_endline (Printf.sprintf "keys_driver: %s: %d" k n)) summary;
  match coq_out with
  | None -> ()
  | Some oc ->
      let cases = List.rev !coq_cases in
      output_string oc "From GV Require Import Keys.Model Keys.Spec Keys.Monitors.\nOpen Scope N_scope.\n";
      output_string oc "Fixpoint hx_go (len : nat) (n : N) (acc : bytes) : bytes :=\n  match len with O => acc | S l => hx_go l (N.div n 256) (N.modulo n 256 :: acc) end.\nDefinition hx (len : nat) (n : N) : bytes := hx_go len n [].\n";
      output_string oc "Definition case_keys (v : gval) (loc : bytes) (r : impl_result) (inm acc mon : bool) : bool :=\n  Bool.eqb (in_model v loc) inm &&\n  Bool.eqb (if in_model v loc then match acc_class v loc r with None => true | Some _ => false end else true) acc &&\n  Bool.eqb (c11_monitor v loc r) mon.\n";
      List.iteri (fun k (i, body) -> Printf.fprintf oc "(* case_%d = call %d of the trace *)\nDefinition case_%d : bool := %s.\n" k i k body) cases;
      Printf.fprintf oc "Definition all_cases : list bool := %s.\n"
        (clist (fun k -> "case_" ^ string_of_int k) (List.init (List.length cases) (fun k -> k)));
      (* ordinals of the sample, not trace indices: unary nat numerals must stay small *)
      output_string oc "Definition mismatches : list nat := Eval vm_compute in\n  map fst (filter (fun p => negb (snd p)) (combine (seq 0 (length all_cases)) all_cases)).\nPrint mismatches.\n";
      close_out oc
