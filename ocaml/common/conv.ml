(* Shared glue, textually included after `open <Engine>_model`: conversions
   between OCaml ints and the extracted N / Z / positive / nat, and a token
   reader.  Part of the trusted base (see DESIGN.md section 6). *)
let rec pos_of_int (i : int) : positive =
  if i <= 1 then XH
  else if i land 1 = 1 then XI (pos_of_int (i lsr 1))
  else XO (pos_of_int (i lsr 1))

let n_of_int (i : int) : n = if i <= 0 then N0 else Npos (pos_of_int i)

let z_of_int (i : int) : z =
  if i = 0 then Z0 else if i > 0 then Zpos (pos_of_int i) else Zneg (pos_of_int (- i))

let rec nat_of_int (i : int) : nat = if i <= 0 then O else S (nat_of_int (i - 1))

let rec int_of_pos (p : positive) : int =
  match p with XH -> 1 | XO q -> 2 * int_of_pos q | XI q -> 2 * int_of_pos q + 1

let int_of_n (x : n) : int = match x with N0 -> 0 | Npos p -> int_of_pos p
let int_of_z (x : z) : int = match x with Z0 -> 0 | Zpos p -> int_of_pos p | Zneg p -> - (int_of_pos p)
let rec int_of_nat (x : nat) : int = match x with O -> 0 | S y -> 1 + int_of_nat y

(* decimal strings of arbitrary size into Z (uint64 values exceed OCaml's int) *)
let z_of_string (s : string) : z =
  let neg = String.length s > 0 && s.[0] = '-' in
  let digits = if neg then String.sub s 1 (String.length s - 1) else s in
  if String.length digits <= 17 then z_of_int (int_of_string s)
  else begin
    (* long division by 2 on the decimal string *)
    let d = Array.init (String.length digits) (fun i -> Char.code digits.[i] - 48) in
    let is_zero () = Array.for_all (fun x -> x = 0) d in
    let bits = ref [] in
    while not (is_zero ()) do
      let carry = ref 0 in
      for i = 0 to Array.length d - 1 do
        let cur = !carry * 10 + d.(i) in
        d.(i) <- cur / 2; carry := cur mod 2
      done;
      bits := !carry :: !bits
    done;
    (* bits: most significant first *)
    let rec build acc = function
      | [] -> acc
      | b :: r -> build (match acc with
                         | None -> if b = 1 then Some XH else None
                         | Some p -> Some (if b = 1 then XI p else XO p)) r in
    match build None !bits with
    | None -> Z0
    | Some p -> if neg then Zneg p else Zpos p
  end

let string_of_z (x : z) : string =
  (* only used for printing; values beyond int range are printed in hex-ish pieces *)
  let rec digits p = match p with XH -> [1] | XO q -> 0 :: digits q | XI q -> 1 :: digits q in
  let to_dec bits_lsb =
    (* decimal string from little-endian bits *)
    let dec = ref [0] in  (* little-endian decimal digits *)
    let add_bit b =
      let carry = ref b in
      dec := List.map (fun dg -> let v = dg * 2 + !carry in carry := v / 10; v mod 10) !dec;
      if !carry > 0 then dec := !dec @ [!carry] in
    List.iter add_bit (List.rev bits_lsb);
    String.concat "" (List.rev_map string_of_int !dec) in
  match x with
  | Z0 -> "0"
  | Zpos p -> to_dec (digits p)
  | Zneg p -> "-" ^ to_dec (digits p)

let split_on (sep : string) (toks : string list) : string list list =
  let rec go cur acc = function
    | [] -> List.rev (List.rev cur :: acc)
    | t :: r -> if t = sep then go [] (List.rev cur :: acc) r else go (t :: cur) acc r in
  go [] [] toks

let tokens (line : string) : string list =
  List.filter (fun s -> s <> "") (String.split_on_char ' ' line)

let rec take k l = if k <= 0 then [] else match l with [] -> [] | x :: r -> x :: take (k - 1) r
let rec drop k l = if k <= 0 then l else match l with [] -> [] | _ :: r -> drop (k - 1) r

let read_lines (path : string) : string list =
  let ic = open_in path in
  let rec go acc = match input_line ic with
    | l -> go (l :: acc)
    | exception End_of_file -> close_in ic; List.rev acc in
  go []
