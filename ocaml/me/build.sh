#!/bin/sh
# builds the engine-B driver from the extracted model; run from anywhere
set -e
cd "$(dirname "$0")"
coqc -Q ../../coq GV ../../coq/Extract/ExtractME.v >/dev/null
( echo "open Me_model"; cat ../common/conv.ml me_driver_body.ml ) > me_driver.ml
ocamlfind ocamlopt -O2 -w -a me_model.mli me_model.ml me_driver.ml -o me_driver 2>/dev/null || \
ocamlfind ocamlopt -w -a me_model.mli me_model.ml me_driver.ml -o me_driver
