(* Driver for engine B: parses trace files written by the Go harness, runs the
   extracted acceptor and monitors on them, prints one verdict line per
   history.  With --coq it also prints the traces as Coq terms. *)
exception Bad of string

let ioz s = z_of_string s
let ion s = n_of_int (int_of_string s)
let ionat s = nat_of_int (int_of_string s)

let parse_op (t : string list) : op =
  match t with
  | ["A"; id; b] -> OpAvail (ion id, b <> "0")
  | "S" :: _ :: ids -> OpSet (List.map ion ids)
  | ["V"; dt] -> OpAdvance (ioz dt)
  | ["B"; k] -> OpBegin (ionat k)
  | ["E"; k] -> OpEnd (ionat k)
  | _ -> raise (Bad ("op: " ^ String.concat " " t))

let rec parse_outs (t : string list) : out list =
  match t with
  | [] -> []
  | "T" :: d :: r -> ONewTimer (ioz d) :: parse_outs r
  | "P" :: k :: b :: r -> OStop (ionat k, b <> "0") :: parse_outs r
  | "X" :: r -> OErr :: parse_outs r
  | _ -> raise (Bad ("outs: " ^ String.concat " " t))

let parse_obs (t : string list) : obs =
  match t with
  | cur :: neps :: r ->
      let ne = int_of_string neps in
      let rec eps k l = if k = 0 then ([], l) else
        match l with
        | id :: p :: st :: tm :: r' ->
            let (es, rest) = eps (k - 1) r' in
            ({ oe_id = ion id; oe_prio = ioz p; oe_st = ioz st; oe_tmr = ioz tm } :: es, rest)
        | _ -> raise (Bad "obs eps") in
      let (es, rest) = eps ne r in
      (match rest with
       | nt :: r2 ->
           let ntm = int_of_string nt in
           let rec tm k l = if k = 0 then ([], l) else
             match l with
             | d :: st :: r' -> let (ts, rest) = tm (k - 1) r' in ((ioz d, ioz st) :: ts, rest)
             | _ -> raise (Bad "obs timers") in
           let (ts, rest2) = tm ntm r2 in
           (match rest2 with
            | [nw] -> { o_cur = ion cur; o_eps = es; o_tmrs = ts; o_now = ioz nw }
            | _ -> raise (Bad "obs now"))
       | _ -> raise (Bad "obs"))
  | _ -> raise (Bad "obs")

type hist = {
  h_line : int;
  h_r : z; h_d : z; h_ids : n list;
  h_outs : out list;
  h_obs : obs option;               (* None: construction refused *)
  mutable h_events : event list;    (* reversed while reading *)
  mutable h_text : string list;
}

let parse_file path : hist list =
  let hs = ref [] in
  List.iteri (fun i line ->
    if String.length line > 0 && line.[0] <> '#' then begin
      match split_on ";" (tokens line) with
      | [opt; outt; obst] ->
          (match opt with
           | "H" :: r :: d :: _ :: ids ->
               let outs = parse_outs outt in
               let ob = if obst = [] then None else Some (parse_obs obst) in
               hs := { h_line = i + 1; h_r = ioz r; h_d = ioz d; h_ids = List.map ion ids;
                       h_outs = outs; h_obs = ob; h_events = []; h_text = [line] } :: !hs
           | _ ->
               (match !hs with
                | h :: _ ->
                    h.h_events <- { ev_op = parse_op opt; ev_out = parse_outs outt; ev_obs = parse_obs obst } :: h.h_events;
                    h.h_text <- line :: h.h_text
                | [] -> raise (Bad "event before H")))
      | _ -> raise (Bad ("line " ^ string_of_int (i + 1)))
    end) (read_lines path);
  List.rev_map (fun h -> h.h_events <- List.rev h.h_events; h.h_text <- List.rev h.h_text; h) !hs

let class_name = function
  | DCurrent -> "current" | DEndpoints -> "endpoints" | DTimers -> "timers"
  | DOutputs -> "outputs" | DIllegal -> "illegal-op"

let rec out_list_eq a b = match a, b with
  | [], [] -> true
  | ONewTimer x :: r, ONewTimer y :: s -> x = y && out_list_eq r s
  | OStop (k, p) :: r, OStop (k', p') :: s -> k = k' && p = p' && out_list_eq r s
  | OErr :: r, OErr :: s -> out_list_eq r s
  | _ -> false

(* first failing prefix length of a monitor that is a conjunction over events *)
let first_fail (ok : event list -> bool) (evs : event list) : int =
  let n = List.length evs in
  let rec go k = if k > n then n else if not (ok (take k evs)) then k - 1 else go (k + 1) in
  go 0

(* ---- Coq term printers (for the in-Coq cross-check) ---- *)
let cz x = "(" ^ string_of_z x ^ ")%Z"
let cn x = string_of_int (int_of_n x) ^ "%N"
let cnat x = string_of_int (int_of_nat x) ^ "%nat"
let clist f l = "[" ^ String.concat "; " (List.map f l) ^ "]"
let cop = function
  | OpAvail (id, b) -> Printf.sprintf "OpAvail %s %b" (cn id) b
  | OpSet ids -> "OpSet " ^ clist cn ids
  | OpAdvance d -> "OpAdvance " ^ cz d
  | OpBegin k -> "OpBegin " ^ cnat k
  | OpEnd k -> "OpEnd " ^ cnat k
let cout = function
  | ONewTimer d -> "ONewTimer " ^ cz d
  | OStop (k, b) -> Printf.sprintf "OStop %s %b" (cnat k) b
  | OErr -> "OErr"
let coep e = Printf.sprintf "mkOep %s %s %s %s" (cn e.oe_id) (cz e.oe_prio) (cz e.oe_st) (cz e.oe_tmr)
let cobs o = Printf.sprintf "(mkObs %s %s %s %s)" (cn o.o_cur) (clist coep o.o_eps)
    (clist (fun (a, b) -> "(" ^ cz a ^ ", " ^ cz b ^ ")") o.o_tmrs) (cz o.o_now)
let cev e = Printf.sprintf "mkEvent (%s) %s %s" (cop e.ev_op) (clist cout e.ev_out) (cobs e.ev_obs)

let () =
  let path = Sys.argv.(1) in
  let coq_out = if Array.length Sys.argv > 3 && Sys.argv.(2) = "--coq" then Some (open_out Sys.argv.(3)) else None in
  let coq_max = if Array.length Sys.argv > 4 then int_of_string Sys.argv.(4) else 100 in
  let hs = parse_file path in
  let coq_cases = ref [] in
  List.iteri (fun i h ->
    let m = newMultiEndpoint h.h_ids h.h_r h.h_d in
    match m, h.h_obs with
    | None, None -> Printf.printf "hist %d line %d nev 0 acc ok m:c13 1 -1 m:c14 1 -1 f:refused 1\n" i h.h_line
    | None, Some _ | Some _, None ->
        Printf.printf "hist %d line %d nev 0 acc div 0 construct m:c13 1 -1 m:c14 1 -1 f:refused 0\n" i h.h_line
    | Some (s0, outs0), Some o0 ->
        let nev = List.length h.h_events in
        let acc =
          if not (out_list_eq outs0 h.h_outs) then Some (0, "outputs")
          else if observe s0 <> o0 then Some (0, "construct")
          else match accept s0 (S O) h.h_events with
               | None -> None
               | Some (idx, c) -> Some (int_of_nat idx, class_name c) in
        let c13 = c13_ok h.h_d h.h_ids o0 h.h_events in
        let c14 = c14_ok h.h_r h.h_d o0 h.h_events && c14T_ok h.h_r o0 h.h_events in
        let f13 = if c13 then -1 else first_fail (fun evs -> c13_ok h.h_d h.h_ids o0 evs) h.h_events in
        let f14 = if c14 then -1 else first_fail (fun evs -> c14_ok h.h_r h.h_d o0 evs && c14T_ok h.h_r o0 evs) h.h_events in
        Printf.printf "hist %d line %d nev %d acc %s m:c13 %d %d m:c14 %d %d f:refused 0\n" i h.h_line nev
          (match acc with None -> "ok" | Some (k, c) -> Printf.sprintf "div %d %s" k c)
          (if c13 then 1 else 0) f13 (if c14 then 1 else 0) f14;
        (* very long endpoint lists are left to the extracted driver: as Coq source they take minutes to parse *)
        if coq_out <> None && List.length !coq_cases < coq_max && List.length h.h_ids <= 40 then
          coq_cases := (h, o0, acc = None, c13, c14) :: !coq_cases
  ) hs;
  match coq_out with
  | None -> ()
  | Some oc ->
      output_string oc "From GV Require Import ME.Model ME.Monitors.\nOpen Scope Z_scope.\n";
      output_string oc "Definition case_ok (ids : list N) (r d : Z) (o0 : obs) (tr : list event) (acc c13 c14 : bool) : bool :=\n  match NewMultiEndpoint ids r d with\n  | Some (s0, _) => Bool.eqb (match accept s0 1%nat tr with None => true | Some _ => false end) acc && Bool.eqb (C13_ok d ids o0 tr) c13 && Bool.eqb (C14_ok r d o0 tr && C14T_ok r o0 tr) c14\n  | None => false\n  end.\n";
      List.iteri (fun i (h, o0, acc, c13, c14) ->
        Printf.fprintf oc "Definition case_%d : bool := case_ok %s %s %s %s %s %b %b %b.\n" i
          (clist cn h.h_ids) (cz h.h_r) (cz h.h_d) (cobs o0) (clist cev h.h_events) acc c13 c14) (List.rev !coq_cases);
      Printf.fprintf oc "Definition all_cases : list bool := %s.\n"
        (clist (fun i -> "case_" ^ string_of_int i) (List.init (List.length !coq_cases) (fun i -> i)));
      output_string oc "Definition mismatches : list nat := Eval vm_compute in\n  map fst (filter (fun p => negb (snd p)) (combine (seq 0 (length all_cases)) all_cases)).\nPrint mismatches.\n";
      close_out oc
