#!/bin/sh
# builds the engine-A driver from the extracted model; run from anywhere
set -e
cd "$(dirname "$0")"
coqc -Q ../../coq GV ../../coq/Extract/ExtractPOOL.v >/dev/null
( echo "open Pool_model"; cat ../common/conv.ml pool_driver_body.ml ) > pool_driver.ml
ocamlfind ocamlopt -O2 -w -a pool_model.mli pool_model.ml pool_driver.ml -o pool_driver 2>/dev/null || \
ocamlfind ocamlopt -w -a pool_model.mli pool_model.ml pool_driver.ml -o pool_driver
