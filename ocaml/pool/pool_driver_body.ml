(* Driver for engine A: parses trace files written by harness/pool, runs the
   extracted acceptor and monitors, prints one verdict line per history. *)
exception Bad of string

let big = 999999999
let ion s = let i = int_of_string s in n_of_int (if i < 0 then big else i)
let ionat s = let i = int_of_string s in nat_of_int (if i < 0 || i > 60000 then 60000 else i)  (* unary nat: keep the sentinel small *)
let ioz s = z_of_string s

let cstate_of_int = function
  | 0 -> Idle | 1 -> Connecting | 2 -> Ready | 3 -> TransientFailure | 4 -> Shutdown
  | _ -> raise (Bad "cstate")
let int_of_cstate = function Idle -> 0 | Connecting -> 1 | Ready -> 2 | TransientFailure -> 3 | Shutdown -> 4

(* method table shared with harness/pool (vpMethods) *)
let methods = [
  (n_of_int 1, { m_cmd = BIND; m_locok = true });
  (n_of_int 2, { m_cmd = BOUND; m_locok = true });
  (n_of_int 3, { m_cmd = UNBIND; m_locok = true });
  (n_of_int 4, { m_cmd = BOUND; m_locok = false });
  (n_of_int 5, { m_cmd = BIND; m_locok = false });
  (n_of_int 6, { m_cmd = UNBIND; m_locok = false });
  (n_of_int 7, { m_cmd = BOUND; m_locok = false });
  (n_of_int 8, { m_cmd = BIND; m_locok = false });
  (n_of_int 9, { m_cmd = UNBIND; m_locok = false });
  (n_of_int 10, { m_cmd = BOUND; m_locok = false });
]

let rec parse_header (t : string list) : config option =
  match t with
  | ["H"; mn; mx; wm; fb; ums; uc; rr; cfgnil] ->
      if cfgnil <> "0" then None
      else Some { c_min = ioz mn; c_max = ioz mx; c_wm = ioz wm; c_fallback = (fb <> "0");
                  c_ums = ioz ums; c_ucalls = ioz uc; c_rr = (rr = "1"); c_methods = methods }
  | ["H"; mn; mx; wm; fb; ums; uc; rr; cfgnil; _cursor] -> parse_header ["H"; mn; mx; wm; fb; ums; uc; rr; cfgnil]
  | _ -> raise (Bad "header")

let parse_op (t : string list) : op =
  match t with
  | ["R"; a; c] -> OpResolver (ion a, (match c with "0" -> CfgNil | "1" -> CfgWrongType | _ -> CfgVal))
  | ["RE"] -> OpResolverErr
  | ["C"; sc; st] -> OpConnState (ion sc, cstate_of_int (int_of_string st))
  | "P" :: pi :: m :: hc :: dl :: cn :: _ :: keys ->
      OpPick (ionat pi, ion m, hc <> "0", List.map ion keys,
              (if int_of_string dl < 0 then None else Some (ioz dl)), cn <> "0")
  | "D" :: j :: oc :: _ :: keys ->
      OpDone (ionat j, (match oc with "0" -> DOk | "1" -> DErr | "2" -> DDeadlineClient | _ -> DDeadlineOther),
              List.map ion keys)
  | ["V"; dt] -> OpAdvance (ioz dt)
  | ["X"; j] -> OpCancel (ionat j)
  | ["F"; f] -> OpFactory (f <> "0")
  | ["G"; g] -> OpGate (g <> "0")
  | ["Z"; k] -> OpResume (ionat k)
  | _ -> raise (Bad ("op: " ^ String.concat " " t))

let parse_picker (t : string list) : picker * string list =
  match t with
  | "0" :: r -> (PErr false, r)
  | "1" :: r -> (PErr true, r)
  | "2" :: n :: r -> let k = int_of_string n in (PSnap (List.map ionat (take k r)), drop k r)
  | _ -> raise (Bad "picker")

let rec parse_outs (t : string list) : out list * string list =
  match t with
  | "N" :: n :: a :: r -> let (o, rest) = parse_outs r in (ONewSC (ion n, ion a) :: o, rest)
  | "NF" :: a :: r -> let (o, rest) = parse_outs r in (ONewSCFail (ion a) :: o, rest)
  | "K" :: n :: r -> let (o, rest) = parse_outs r in (OConnect (ion n) :: o, rest)
  | "U" :: n :: a :: r -> let (o, rest) = parse_outs r in (OUpdAddr (ion n, ion a) :: o, rest)
  | "RM" :: n :: r -> let (o, rest) = parse_outs r in (ORemove (ion n) :: o, rest)
  | "S" :: st :: r ->
      let (p, r2) = parse_picker r in
      let (o, rest) = parse_outs r2 in (OUpdateState (cstate_of_int (int_of_string st), p) :: o, rest)
  | _ -> ([], t)

let parse_ret (t : string list) : ret * string list =
  match t with
  | "none" :: r -> (RNone, r)
  | "cfgerr" :: r -> (RCfgErr, r)
  | "picked" :: n :: r -> (RPicked (ion n), r)
  | "nosub" :: r -> (RNoSubConn, r)
  | "tf" :: r -> (RTransient, r)
  | "keyerr" :: r -> (RKeyErr, r)
  | "blocked" :: r -> (RBlocked, r)
  | "parked" :: r -> (RParked, r)
  | "panic" :: r -> (RPanic, r)
  | "stuck" :: r -> (RStuck, r)
  | "nilsc" :: r -> (RPanic, r)
  | "badop" :: r -> (RBadOp, r)
  | _ -> raise (Bad ("ret: " ^ String.concat " " t))

let rec pairs f g = function
  | a :: b :: r -> (f a, g b) :: pairs f g r
  | [] -> []
  | _ -> raise (Bad "pairs")

let parse_mid (t : string list) : out list * ret * (nat * n) list =
  let (outs, rest) = parse_outs t in
  match rest with
  | "RET" :: r ->
      let (rt, r2) = parse_ret r in
      (match r2 with
       | "UB" :: r3 -> (outs, rt, pairs ionat (fun s -> let i = int_of_string s in n_of_int (if i < 0 then big - i else i)) r3)
       | _ -> raise (Bad "UB"))
  | _ -> raise (Bad ("mid: " ^ String.concat " " rest))

let expect tag = function
  | x :: r when x = tag -> r
  | t -> raise (Bad ("expected " ^ tag ^ " got " ^ (match t with x :: _ -> x | [] -> "<eol>")))

let parse_table f g (t : string list) =
  match t with
  | n :: r -> let k = int_of_string n in (pairs f g (take (2 * k) r), drop (2 * k) r)
  | [] -> raise (Bad "table")

let parse_obs (t : string list) : obs option =
  match t with
  | ["DEAD"] | ["LOCKED"] | [] -> None
  | cfgset :: addrs :: nr :: nc :: ntf :: st :: r ->
      let r = expect "AFF" r in let (aff, r) = parse_table ion ion r in
      let r = expect "FB" r in let (fb, r) = parse_table ion ion r in
      let r = expect "ST" r in let (sts, r) = parse_table ion (fun s -> cstate_of_int (int_of_string s)) r in
      let r = expect "REFS" r in let (refs, r) = parse_table ion ionat r in
      let r = expect "SLOTS" r in
      (match r with
       | ns :: r ->
           let k = int_of_string ns in
           let rec slots k l = if k = 0 then ([], l) else
             match l with
             | c :: a :: s :: la :: de :: rf :: rc :: r' ->
                 let (ss, rest) = slots (k - 1) r' in
                 ({ sl_conn = ion c; sl_aff = ioz a; sl_streams = ioz s; sl_last = ioz la; sl_de = ioz de;
                    sl_refreshing = (rf <> "0"); sl_rcnt = ioz rc } :: ss, rest)
             | _ -> raise (Bad "slots") in
           let (sl, r) = slots k r in
           (match r with
            | rr :: r ->
                let r = expect "REFR" r in let (refr, r) = parse_table ion ionat r in
                (match r with
                 | ud :: r ->
                     let r = expect "PK" r in
                     let (pk, r) = parse_picker r in
                     (match r with
                      | [npub; nw; mf] ->
                          Some { o_cfgset = (cfgset <> "0"); o_addrs = ion addrs; o_nready = ioz nr; o_nconn = ioz nc;
                                 o_ntf = ioz ntf; o_state = cstate_of_int (int_of_string st); o_aff = aff; o_fb = fb;
                                 o_st = sts; o_refs = refs; o_slots = sl; o_rr = ioz rr; o_refr = refr;
                                 o_undet = (ud <> "0"); o_picker = pk; o_npub = ionat npub; o_now = ioz nw;
                                 o_mufree = (mf <> "0") }
                      | _ -> raise (Bad "obs tail"))
                 | _ -> raise (Bad "obs undet"))
            | _ -> raise (Bad "obs rr"))
       | _ -> raise (Bad "obs slots"))
  | _ -> raise (Bad "obs")

type hist = {
  h_line : int;
  h_raw : config option;
  h_obs : obs option;
  mutable h_events : event list;
}

let parse_file path : hist list =
  let hs = ref [] in
  List.iteri (fun i line ->
    if String.length line > 0 && line.[0] <> '#' then begin
      try
        match split_on ";" (tokens line) with
        | [opt; midt; obst] ->
            (match opt with
             | "H" :: _ -> hs := { h_line = i + 1; h_raw = parse_header opt; h_obs = parse_obs obst; h_events = [] } :: !hs
             | _ ->
                 (match !hs with
                  | h :: _ ->
                      let (outs, rt, ub) = parse_mid midt in
                      h.h_events <- { ev_op = parse_op opt; ev_out = outs; ev_ret = rt; ev_ub = ub; ev_obs = parse_obs obst } :: h.h_events
                  | [] -> raise (Bad "event before H")))
        | _ -> raise (Bad "fields")
      with Bad m -> raise (Bad (Printf.sprintf "line %d: %s" (i + 1) m))
    end) (read_lines path);
  List.rev_map (fun h -> h.h_events <- List.rev h.h_events; h) !hs

let class_name = function
  | DRet -> "ret" | DNewSC -> "newsc" | DAddr -> "addr" | DPublish -> "publish" | DUnblocked -> "unblocked"
  | DCfg -> "cfg" | DCounters -> "counters" | DAff -> "aff" | DFb -> "fb" | DStates -> "states" | DRefs -> "refs"
  | DStreams -> "streams" | DSlotAff -> "slotaff" | DRefresh -> "refresh" | DRr -> "rr" | DPicker -> "picker"
  | DNow -> "now" | DLock -> "lock" | DEnded -> "ended" | DBadOp -> "badop"

let monitor_table : (string * (config option -> obs -> event list -> bool)) list = [
  ("c01", c01_ok); ("c02", c02_ok); ("c03", (fun raw o0 tr -> c03_ok raw o0 tr && c03S_ok raw o0 tr && c03X_ok raw o0 tr)); ("c04", c04_ok); ("c05", c05_ok);
  ("c06", c06_ok); ("c07", c07_ok); ("c08", c08_ok); ("c09", (fun raw o0 tr -> c09_ok raw o0 tr && c09D_ok raw o0 tr && c09W_ok raw o0 tr)); ("c20", c20_ok) ]

let first_fail (ok : event list -> bool) (evs : event list) : int =
  let n = List.length evs in
  let rec go k = if k > n then n else if not (ok (take k evs)) then k - 1 else go (k + 1) in
  go 0

(* ---- Coq term printers (in-Coq cross-check) ---- *)
let cz x = "(" ^ string_of_z x ^ ")%Z"
let cn x = string_of_int (int_of_n x) ^ "%N"
let cnat x = string_of_int (int_of_nat x) ^ "%nat"
let clist f l = "[" ^ String.concat "; " (List.map f l) ^ "]"
let cbool b = if b then "true" else "false"
let ccs = function Idle -> "Idle" | Connecting -> "Connecting" | Ready -> "Ready"
  | TransientFailure -> "TransientFailure" | Shutdown -> "Shutdown"
let copt f = function None -> "None" | Some x -> "(Some " ^ f x ^ ")"
let cpicker = function PErr b -> "(PErr " ^ cbool b ^ ")" | PSnap l -> "(PSnap " ^ clist cnat l ^ ")"
let ccmd = function BOUND -> "BOUND" | BIND -> "BIND" | UNBIND -> "UNBIND"
let cop = function
  | OpResolver (a, c) -> Printf.sprintf "OpResolver %s %s" (cn a)
      (match c with CfgNil -> "CfgNil" | CfgWrongType -> "CfgWrongType" | CfgVal -> "CfgVal")
  | OpResolverErr -> "OpResolverErr"
  | OpConnState (sc, st) -> Printf.sprintf "OpConnState %s %s" (cn sc) (ccs st)
  | OpPick (pi, m, hc, ks, dl, cx) -> Printf.sprintf "OpPick %s %s %s %s %s %s" (cnat pi) (cn m) (cbool hc) (clist cn ks) (copt cz dl) (cbool cx)
  | OpDone (j, oc, ks) -> Printf.sprintf "OpDone %s %s %s" (cnat j)
      (match oc with DOk -> "DOk" | DErr -> "DErr" | DDeadlineClient -> "DDeadlineClient" | DDeadlineOther -> "DDeadlineOther") (clist cn ks)
  | OpAdvance d -> "OpAdvance " ^ cz d
  | OpCancel j -> "OpCancel " ^ cnat j
  | OpFactory f -> "OpFactory " ^ cbool f
  | OpGate g -> "OpGate " ^ cbool g
  | OpResume k -> "OpResume " ^ cnat k
let cout = function
  | ONewSC (n, a) -> Printf.sprintf "ONewSC %s %s" (cn n) (cn a)
  | ONewSCFail a -> "ONewSCFail " ^ cn a
  | OConnect n -> "OConnect " ^ cn n
  | OUpdAddr (n, a) -> Printf.sprintf "OUpdAddr %s %s" (cn n) (cn a)
  | ORemove n -> "ORemove " ^ cn n
  | OUpdateState (st, p) -> Printf.sprintf "OUpdateState %s %s" (ccs st) (cpicker p)
let cret = function
  | RNone -> "RNone" | RCfgErr -> "RCfgErr" | RPicked n -> "(RPicked " ^ cn n ^ ")" | RNoSubConn -> "RNoSubConn"
  | RTransient -> "RTransient" | RKeyErr -> "RKeyErr" | RBlocked -> "RBlocked" | RParked -> "RParked" | RPanic -> "RPanic"
  | RStuck -> "RStuck" | RBadOp -> "RBadOp"
let cpair f g (a, b) = "(" ^ f a ^ ", " ^ g b ^ ")"
let cslot s = Printf.sprintf "mkSlot %s %s %s %s %s %s %s" (cn s.sl_conn) (cz s.sl_aff) (cz s.sl_streams) (cz s.sl_last)
    (cz s.sl_de) (cbool s.sl_refreshing) (cz s.sl_rcnt)
let cobs o = Printf.sprintf "(mkObs %s %s %s %s %s %s %s %s %s %s %s %s %s %s %s %s %s %s)" (cbool o.o_cfgset) (cn o.o_addrs)
    (cz o.o_nready) (cz o.o_nconn) (cz o.o_ntf) (ccs o.o_state) (clist (cpair cn cn) o.o_aff) (clist (cpair cn cn) o.o_fb)
    (clist (cpair cn ccs) o.o_st) (clist (cpair cn cnat) o.o_refs) (clist cslot o.o_slots) (cz o.o_rr)
    (clist (cpair cn cnat) o.o_refr) (cbool o.o_undet) (cpicker o.o_picker) (cnat o.o_npub) (cz o.o_now) (cbool o.o_mufree)
let cev e = Printf.sprintf "mkEvent (%s) %s %s %s %s" (cop e.ev_op) (clist cout e.ev_out) (cret e.ev_ret)
    (clist (cpair cnat cn) e.ev_ub) (copt cobs e.ev_obs)
let cmcfg (k, m) = Printf.sprintf "(%s, mkMcfg %s %s)" (cn k) (ccmd m.m_cmd) (cbool m.m_locok)
let cconfig c = Printf.sprintf "(mkConfig %s %s %s %s %s %s %s %s)" (cz c.c_min) (cz c.c_max) (cz c.c_wm) (cbool c.c_fallback)
    (cz c.c_ums) (cz c.c_ucalls) (cbool c.c_rr) (clist cmcfg c.c_methods)

let () =
  let path = Sys.argv.(1) in
  let coq_out = if Array.length Sys.argv > 3 && Sys.argv.(2) = "--coq" then Some (open_out Sys.argv.(3)) else None in
  let coq_max = if Array.length Sys.argv > 4 then int_of_string Sys.argv.(4) else 100 in
  let coq_cases = ref [] in
  let hs = parse_file path in
  List.iteri (fun i h ->
    let nev = List.length h.h_events in
    let acc =
      match h.h_obs with
      | None -> Some (0, "ended")
      | Some o0 ->
          let s0 = set_rr init_bal o0.o_rr in    (* the cursor may be injected by the header, see harness *)
          if observe s0 <> o0 then Some (0, "construct")
          else match accept h.h_raw s0 (S O) h.h_events with
               | None -> None
               | Some (idx, c) -> Some (int_of_nat idx, class_name c) in
    let mons =
      match h.h_obs with
      | None -> []
      | Some o0 ->
          List.map (fun (name, f) ->
            let ok = f h.h_raw o0 h.h_events in
            let idx = if ok then -1 else first_fail (fun evs -> f h.h_raw o0 evs) h.h_events in
            Printf.sprintf "m:%s %d %d" name (if ok then 1 else 0) idx) monitor_table in
    let flags = match h.h_obs with
      | Some o0 -> Printf.sprintf " f:k_RES %d f:k_RR2 %d f:k_RR1 %d" (if known_RES h.h_raw o0 h.h_events then 1 else 0)
                     (if known_RR2 h.h_raw o0 h.h_events then 1 else 0) (if known_RR1 h.h_raw o0 h.h_events then 1 else 0)
      | None -> "" in
    Printf.printf "hist %d line %d nev %d acc %s %s%s\n" i h.h_line nev
      (match acc with None -> "ok" | Some (k, c) -> Printf.sprintf "div %d %s" k c)
      (String.concat " " mons) flags;
    (match coq_out, h.h_obs with
     | Some _, Some o0 when List.length !coq_cases < coq_max && nev <= 40 ->
         let verdicts = List.map (fun (_, f) -> f h.h_raw o0 h.h_events) monitor_table in
         coq_cases := (h, o0, acc = None, verdicts) :: !coq_cases
     | _ -> ())
  ) hs;
  match coq_out with
  | None -> ()
  | Some oc ->
      output_string oc "From GV Require Import Pool.Model Pool.Observe Pool.Monitors.\nOpen Scope Z_scope.\n";
      output_string oc "Definition case_ok (raw : option config) (o0 : obs) (tr : list event) (acc : bool) (vs : list bool) : bool :=\n  Bool.eqb (match accept raw (set_rr init_bal (o_rr o0)) 1%nat tr with None => true | Some _ => false end) acc &&\n  list_eqb Bool.eqb (map (fun pid => monitor pid raw o0 tr) [P01; P02] ++ [monitor P03 raw o0 tr && C03S_ok raw o0 tr && C03X_ok raw o0 tr] ++ map (fun pid => monitor pid raw o0 tr) [P04; P05; P06; P07; P08] ++ [monitor P09 raw o0 tr && C09D_ok raw o0 tr && C09W_ok raw o0 tr; monitor P20 raw o0 tr]) vs.\n";
      List.iteri (fun i (h, o0, acc, vs) ->
        Printf.fprintf oc "Definition case_%d : bool := case_ok %s %s %s %s %s.\n" i
          (copt cconfig h.h_raw) (cobs o0) (clist cev h.h_events) (cbool acc) (clist cbool vs)) (List.rev !coq_cases);
      Printf.fprintf oc "Definition all_cases : list bool := %s.\n"
        (clist (fun i -> "case_" ^ string_of_int i) (List.init (List.length !coq_cases) (fun i -> i)));
      output_string oc "Definition mismatches : list nat := Eval vm_compute in\n  map fst (filter (fun p => negb (snd p)) (combine (seq 0 (length all_cases)) all_cases)).\nPrint mismatches.\n";
      close_out oc
