//go:build verif

// Harness for engine C (GCPMultiEndpoint, gcp_multiendpoint.go).  Injected with
// `go test -tags verif -overlay`; nothing in /repo is changed.
//
// DialFunc returns REAL *grpc.ClientConn objects (grpc.DialContext with the
// options GCPMultiEndpoint passes, insecure credentials and a context dialer to
// a per-endpoint bufconn listener), so no network is used.  An endpoint is "up"
// iff an in-process gRPC server serves on its bufconn listener.  A new pool is
// only allowed to connect after the line of the update that created it has
// been written ("admission"), one endpoint at a time, so that every
// connectivity change is one `P e b` line of its own.  MultiEndpoint options
// always use RecoveryTimeout=0 and SwitchingDelay=0 (the timers of package
// multiendpoint are unexported variables of another package and cannot be
// replaced from here).
//
// Trace line:  OP ; OUTS ; OBS
//
//	OP    TA dt | TB name k | TE name k   (timed histories, see below)
//	OP    H <opts> | U <opts> | UR <opts> | UB <opts> K e | UC <opts> | <opts> | SU e | SD e | P e b | X ctx | C
//	      UR: an update whose DialFunc, for endpoints whose server is up, returns the new
//	      ClientConn only when it is READY (like grpc.WithBlock()): the pool is READY when it
//	      is registered and stays READY.  Such dials are logged with ok = 2.  The line is
//	      written when the monitors are idle and every MultiEndpoint knows (bounded as for
//	      UB), followed by a `P e 1` line per such endpoint.
//	      UC: two updates: the first dial of update 1 BLOCKS; update 2 is started in a second
//	      goroutine and is either parked on gme.mu (goroutine stacks) or has returned when the
//	      dial is released.  Expected outcome: update 1 then update 2 in sequence.  Outputs of
//	      update 2 follow `W ms` as `V code D n {ep ok}*n`.
//	      UB: an update whose first DialFunc call BLOCKS (UpdateMultiEndpoints holds gme.mu)
//	      while the server of the kept endpoint e goes down and comes back (its monitor
//	      parks in notify with the outage report); then the dial is released.  The line is
//	      written when the monitors are quiescent again and every MultiEndpoint knows the final
//	      readiness (bounded by 3 s; given up 0.5 s after every monitor is idle in
//	      WaitForStateChange with the report still missing), followed by a
//	      `P e 1` line: a lost transition shows as a MultiEndpoint that does not know that
//	      the pool of e is READY.
//	      <opts> = default nmes {name N | name L r d k ep*k} F nf ep*nf
//	OUTS  E code D n {ep ok}*n R call W ms
//	OBS   M n {name cur k {id prio st tmr}*k} Q n {ep id open ready} DEF d RT n {ctx P | ctx ep id open} O n id*n G census
//
// Timed histories (MultiEndpoints with non-zero RecoveryTimeout / SwitchingDelay): the clock and
// the timer factory of package multiendpoint are replaced (harness/gme_me/zz_verif_clock.go,
// added to that package by the overlay) by a virtual clock and timers that fire only when the
// history says so: TA dt advances the clock, TB name k lets the runtime fire timer k of
// MultiEndpoint `name` (Stop() returns false from then on), TE name k runs its callback.  A
// timer is attributed to the MultiEndpoint whose lock its creator holds (probed with TryRLock)
// or, for timers created inside NewMultiEndpoint, to the MultiEndpoint whose endpoint refers to
// it; k counts the timers of one MultiEndpoint in creation order; `tmr` of an endpoint row is the
// index of its futureChange timer (-1 none).  Timed histories are generated online under a
// policy that keeps them deterministic (see vgGenTimed).
package grpcgcp

import (
	"bufio"
	"context"
	"errors"
	"fmt"
	"io/ioutil"
	"net"
	"os"
	"path/filepath"
	"reflect"
	"runtime"
	"sort"
	"strconv"
	"strings"
	"sync"
	"testing"
	"time"

	"github.com/GoogleCloudPlatform/grpc-gcp-go/grpcgcp/multiendpoint"
	"google.golang.org/grpc"
	"google.golang.org/grpc/backoff"
	"google.golang.org/grpc/connectivity"
	"google.golang.org/grpc/credentials/insecure"
	"google.golang.org/grpc/grpclog"
	"google.golang.org/grpc/test/bufconn"
	"google.golang.org/protobuf/types/known/emptypb"
)

// ---------------------------------------------------------------- PRNG
type vgRng struct{ s uint64 }

func (r *vgRng) next() uint64 {
	r.s += 0x9E3779B97F4A7C15
	z := r.s
	z = (z ^ (z >> 30)) * 0xBF58476D1CE4E5B9
	z = (z ^ (z >> 27)) * 0x94D049BB133111EB
	return z ^ (z >> 31)
}
func (r *vgRng) intn(n int) int { return int(r.next() % uint64(n)) }
func (r *vgRng) pct(p int) bool { return r.intn(100) < p }

// ---------------------------------------------------------------- names
func vgMEName(n int) string {
	if n == 0 {
		return ""
	}
	return "me" + strconv.Itoa(n)
}

func vgMEID(s string) int {
	if s == "" {
		return 0
	}
	n, err := strconv.Atoi(strings.TrimPrefix(s, "me"))
	if err != nil {
		return -1
	}
	return n
}

func vgEPName(e int) string { return "ep" + strconv.Itoa(e) }

func vgEPID(s string) int {
	n, err := strconv.Atoi(strings.TrimPrefix(s, "ep"))
	if err != nil || !strings.HasPrefix(s, "ep") {
		return -1
	}
	return n
}

var vgProbes = []int{-1, 0, 1, 2, 3, 4, 9} // -1: no name in the context

func vgCtx(c int) context.Context {
	if c < 0 {
		return context.Background()
	}
	return NewMEContext(context.Background(), vgMEName(c))
}

// ---------------------------------------------------------------- ops
type vgME struct {
	name   int
	nilopt bool
	r, d   int64
	eps    []int
}

type vgOpts struct {
	def   int
	mes   []vgME
	fails []int
}

type vgOp struct {
	kind string // H U UB UC SU SD P X C
	opts *vgOpts
	opt2 *vgOpts // UC: the options of the second update
	e    int
	b    int
}

func (o *vgOpts) String() string {
	var sb strings.Builder
	fmt.Fprintf(&sb, "%d %d", o.def, len(o.mes))
	for _, m := range o.mes {
		if m.nilopt {
			fmt.Fprintf(&sb, " %d N", m.name)
			continue
		}
		fmt.Fprintf(&sb, " %d L %d %d %d", m.name, m.r, m.d, len(m.eps))
		for _, e := range m.eps {
			fmt.Fprintf(&sb, " %d", e)
		}
	}
	fmt.Fprintf(&sb, " F %d", len(o.fails))
	for _, e := range o.fails {
		fmt.Fprintf(&sb, " %d", e)
	}
	return sb.String()
}

func (o vgOp) String() string {
	switch o.kind {
	case "H", "U", "UR":
		return o.kind + " " + o.opts.String()
	case "UB":
		return fmt.Sprintf("UB %s K %d", o.opts.String(), o.e)
	case "UC":
		return fmt.Sprintf("UC %s | %s", o.opts.String(), o.opt2.String())
	case "SU", "SD", "TA":
		return fmt.Sprintf("%s %d", o.kind, o.e)
	case "TB", "TE":
		return fmt.Sprintf("%s %d %d", o.kind, o.e, o.b)
	case "P":
		return fmt.Sprintf("P %d %d", o.e, o.b)
	case "X":
		if o.e < 0 {
			return "X -"
		}
		return fmt.Sprintf("X %d", o.e)
	case "C":
		return "C"
	}
	return "?"
}

func vgParseOpts(t []string) (*vgOpts, error) {
	bad := errors.New("bad options: " + strings.Join(t, " "))
	pos := 0
	next := func() (int64, bool) {
		if pos >= len(t) {
			return 0, false
		}
		v, err := strconv.ParseInt(t[pos], 10, 64)
		pos++
		return v, err == nil
	}
	o := &vgOpts{}
	d, ok := next()
	n, ok2 := next()
	if !ok || !ok2 {
		return nil, bad
	}
	o.def = int(d)
	for i := 0; i < int(n); i++ {
		name, ok := next()
		if !ok || pos >= len(t) {
			return nil, bad
		}
		k := t[pos]
		pos++
		m := vgME{name: int(name)}
		if k == "N" {
			m.nilopt = true
		} else if k == "L" {
			r, ok1 := next()
			dd, ok2 := next()
			cnt, ok3 := next()
			if !ok1 || !ok2 || !ok3 {
				return nil, bad
			}
			m.r, m.d = r, dd
			for j := 0; j < int(cnt); j++ {
				e, ok := next()
				if !ok {
					return nil, bad
				}
				m.eps = append(m.eps, int(e))
			}
		} else {
			return nil, bad
		}
		o.mes = append(o.mes, m)
	}
	if pos >= len(t) || t[pos] != "F" {
		return nil, bad
	}
	pos++
	nf, ok := next()
	if !ok {
		return nil, bad
	}
	for j := 0; j < int(nf); j++ {
		e, ok := next()
		if !ok {
			return nil, bad
		}
		o.fails = append(o.fails, int(e))
	}
	return o, nil
}

func vgParseOp(line string) (vgOp, bool, error) {
	if i := strings.Index(line, ";"); i >= 0 {
		line = line[:i]
	}
	t := strings.Fields(line)
	if len(t) == 0 || strings.HasPrefix(t[0], "#") {
		return vgOp{}, false, nil
	}
	switch t[0] {
	case "H", "U", "UR":
		o, err := vgParseOpts(t[1:])
		if err != nil {
			return vgOp{}, false, err
		}
		return vgOp{kind: t[0], opts: o}, true, nil
	case "UC":
		k := -1
		for i, x := range t {
			if x == "|" {
				k = i
			}
		}
		if k < 0 {
			return vgOp{}, false, errors.New("bad op: " + line)
		}
		o1, err := vgParseOpts(t[1:k])
		if err != nil {
			return vgOp{}, false, err
		}
		o2, err := vgParseOpts(t[k+1:])
		if err != nil {
			return vgOp{}, false, err
		}
		return vgOp{kind: "UC", opts: o1, opt2: o2}, true, nil
	case "UB":
		if len(t) < 4 || t[len(t)-2] != "K" {
			return vgOp{}, false, errors.New("bad op: " + line)
		}
		o, err := vgParseOpts(t[1 : len(t)-2])
		if err != nil {
			return vgOp{}, false, err
		}
		e, err := strconv.Atoi(t[len(t)-1])
		return vgOp{kind: "UB", opts: o, e: e}, true, err
	case "SU", "SD", "TA":
		if len(t) != 2 {
			return vgOp{}, false, errors.New("bad op: " + line)
		}
		e, err := strconv.Atoi(t[1])
		return vgOp{kind: t[0], e: e}, true, err
	case "TB", "TE":
		if len(t) != 3 {
			return vgOp{}, false, errors.New("bad op: " + line)
		}
		e, err := strconv.Atoi(t[1])
		if err != nil {
			return vgOp{}, false, err
		}
		k, err := strconv.Atoi(t[2])
		return vgOp{kind: t[0], e: e, b: k}, true, err
	case "P":
		return vgOp{}, false, nil // written by the harness itself; regenerated on replay
	case "X":
		if len(t) != 2 {
			return vgOp{}, false, errors.New("bad op: " + line)
		}
		if t[1] == "-" {
			return vgOp{kind: "X", e: -1}, true, nil
		}
		e, err := strconv.Atoi(t[1])
		return vgOp{kind: "X", e: e}, true, err
	case "C":
		return vgOp{kind: "C"}, true, nil
	}
	return vgOp{}, false, errors.New("bad op: " + line)
}

func vgParseHistories(path string) ([][]vgOp, error) {
	data, err := ioutil.ReadFile(path)
	if err != nil {
		return nil, err
	}
	var hs [][]vgOp
	for _, line := range strings.Split(string(data), "\n") {
		op, ok, err := vgParseOp(line)
		if err != nil {
			return nil, fmt.Errorf("%s: %v", path, err)
		}
		if !ok {
			continue
		}
		if op.kind == "H" {
			hs = append(hs, []vgOp{op})
		} else if len(hs) > 0 {
			hs[len(hs)-1] = append(hs[len(hs)-1], op)
		}
	}
	return hs, nil
}

// ---------------------------------------------------------------- environment: servers and dialer
type vgDial struct {
	id   int
	ep   string
	conn *grpc.ClientConn
}

var (
	vgMu    sync.Mutex
	vgUp    = map[string]bool{}
	vgAdmit = map[string]bool{}
	vgLis   = map[string]*bufconn.Listener{}
	vgSrv   = map[string]*grpc.Server{}
	vgGot   []string              // endpoints whose server received an RPC
	vgCalls = map[int64]*vgCall{} // the New/Update invocation running in a goroutine
)

// one invocation of NewGCPMultiEndpoint / UpdateMultiEndpoints: the dial failures injected
// into it and its dial log (DialFunc runs in the goroutine of the update that dials)
type vgCall struct {
	fails map[string]bool
	outD  []string
}

var vgOrphan = &vgCall{fails: map[string]bool{}}

func vgGid() int64 {
	var buf [64]byte
	n := runtime.Stack(buf[:], false)
	f := strings.Fields(string(buf[:n]))
	if len(f) < 2 {
		return -1
	}
	id, err := strconv.ParseInt(f[1], 10, 64)
	if err != nil {
		return -1
	}
	return id
}

var vgDialErr = errors.New("vg: injected dial failure")

// timed histories: a connection attempt to an endpoint that is down does not fail, it hangs
// until the endpoint comes up (no background CONNECTING/TRANSIENT_FAILURE cycling of the pools,
// whose reports would re-run maybeUpdateCurrent at arbitrary moments)
var (
	vgTimed bool
	vgWake  = make(chan struct{})
)

func vgWakeDialers() {
	vgMu.Lock()
	close(vgWake)
	vgWake = make(chan struct{})
	vgMu.Unlock()
}

func vgContextDialer(ctx context.Context, addr string) (net.Conn, error) {
	for {
		vgMu.Lock()
		l := vgLis[addr]
		ok := vgUp[addr] && vgAdmit[addr] && l != nil
		timed := vgTimed
		wake := vgWake
		vgMu.Unlock()
		if ok {
			return l.DialContext(ctx)
		}
		if !timed {
			return nil, errors.New("vg: endpoint down")
		}
		select {
		case <-ctx.Done():
			return nil, ctx.Err()
		case <-wake:
		}
	}
}

// ---------------------------------------------------------------- virtual clock and timers
type vgTimer struct {
	due   int64
	f     func()
	st    int     // 0 pending, 1 stopped, 2 firing, 3 done
	owner uintptr // the *multiEndpoint it belongs to; 0: not known yet
}

var vgClk struct {
	mu      sync.Mutex
	now     int64
	timers  []*vgTimer // creation order
	byPtr   map[uintptr]*vgTimer
	cur     *vgRun
	attrErr int // timers whose MultiEndpoint could not be determined
}

var vgBase = time.Unix(1000000000, 0)

func (t *vgTimer) Stop() bool {
	vgClk.mu.Lock()
	defer vgClk.mu.Unlock()
	was := t.st == 0
	if was {
		t.st = 1
	}
	return was
}

func (t *vgTimer) Reset(d time.Duration) bool { return false }

func vgNow() time.Time {
	vgMu.Lock()
	timed := vgTimed
	vgMu.Unlock()
	if !timed {
		return time.Now()
	}
	vgClk.mu.Lock()
	defer vgClk.mu.Unlock()
	return vgBase.Add(time.Duration(vgClk.now))
}

func vgMEPtr(me multiendpoint.MultiEndpoint) uintptr {
	v := reflect.ValueOf(me)
	if !v.IsValid() || v.Kind() != reflect.Ptr || v.IsNil() {
		return 0
	}
	return v.Pointer()
}

// the MultiEndpoint whose write lock is held right now (by the goroutine creating a timer)
func vgLockedME(r *vgRun) (owner uintptr, ambiguous bool) {
	if r == nil || r.gme == nil {
		return 0, false
	}
	for try := 0; try < 200; try++ {
		n := 0
		owner = 0
		for _, me := range r.gme.mes {
			l, ok := me.(interface {
				TryRLock() bool
				RUnlock()
			})
			if !ok {
				continue
			}
			if l.TryRLock() {
				l.RUnlock()
			} else {
				n++
				owner = vgMEPtr(me)
			}
		}
		if n <= 1 {
			return owner, false
		}
		runtime.Gosched()
	}
	return 0, true
}

func vgAfter(d time.Duration, f func()) multiendpoint.VerifTimer {
	vgMu.Lock()
	timed := vgTimed
	vgMu.Unlock()
	if !timed {
		return time.AfterFunc(d, f)
	}
	vgClk.mu.Lock()
	r := vgClk.cur
	vgClk.mu.Unlock()
	owner, amb := vgLockedME(r)
	t := &vgTimer{f: f, owner: owner}
	vgClk.mu.Lock()
	if amb {
		vgClk.attrErr++
	}
	t.due = vgClk.now + int64(d)
	vgClk.timers = append(vgClk.timers, t)
	vgClk.byPtr[reflect.ValueOf(t).Pointer()] = t
	vgClk.mu.Unlock()
	return t
}

// timers created inside NewMultiEndpoint (the new MultiEndpoint is not registered yet): find
// the endpoint that refers to them
func (r *vgRun) resolveTimers() {
	if r.gme == nil {
		return
	}
	vgClk.mu.Lock()
	pending := false
	for _, t := range vgClk.timers {
		if t.owner == 0 {
			pending = true
		}
	}
	vgClk.mu.Unlock()
	if !pending {
		return
	}
	for _, me := range r.gme.mes {
		_, rows := vgReadME(me)
		vgClk.mu.Lock()
		for _, x := range rows {
			if t := vgClk.byPtr[x.tmrPtr]; t != nil && t.owner == 0 {
				t.owner = vgMEPtr(me)
			}
		}
		vgClk.mu.Unlock()
	}
	vgClk.mu.Lock()
	for _, t := range vgClk.timers {
		if t.owner == 0 {
			t.owner = ^uintptr(0)
			vgClk.attrErr++
		}
	}
	vgClk.mu.Unlock()
}

// the timers of one MultiEndpoint, in creation order (call with vgClk.mu held)
func vgTimersOf(owner uintptr) []*vgTimer {
	var out []*vgTimer
	for _, t := range vgClk.timers {
		if t.owner == owner {
			out = append(out, t)
		}
	}
	return out
}

func vgTimerIndex(ptr uintptr) int {
	if ptr == 0 {
		return -1
	}
	vgClk.mu.Lock()
	defer vgClk.mu.Unlock()
	t := vgClk.byPtr[ptr]
	if t == nil {
		return -2
	}
	for i, x := range vgTimersOf(t.owner) {
		if x == t {
			return i
		}
	}
	return -2
}

func vgStartServer(ep string) {
	l := bufconn.Listen(1 << 16)
	s := grpc.NewServer(grpc.UnknownServiceHandler(func(srv interface{}, stream grpc.ServerStream) error {
		var m emptypb.Empty
		if err := stream.RecvMsg(&m); err != nil {
			return err
		}
		vgMu.Lock()
		vgGot = append(vgGot, ep)
		vgMu.Unlock()
		return stream.SendMsg(&emptypb.Empty{})
	}))
	vgMu.Lock()
	vgLis[ep] = l
	vgSrv[ep] = s
	vgUp[ep] = true
	vgMu.Unlock()
	go s.Serve(l)
	vgWakeDialers()
}

func vgStopServer(ep string) {
	vgMu.Lock()
	s := vgSrv[ep]
	vgUp[ep] = false
	delete(vgSrv, ep)
	delete(vgLis, ep)
	vgMu.Unlock()
	if s != nil {
		s.Stop()
	}
}

// number of goroutines running (*monitoredConn).monitor
func vgCensus() int {
	buf := make([]byte, 1<<18)
	for {
		n := runtime.Stack(buf, true)
		if n < len(buf) {
			buf = buf[:n]
			break
		}
		buf = make([]byte, 2*len(buf))
	}
	c := 0
	for _, g := range strings.Split(string(buf), "\n\n") {
		// a monitor that was started but has not run yet only shows its creator
		if strings.Contains(g, "(*monitoredConn).monitor") || strings.Contains(g, "grpcgcp.newMonitoredConn") {
			c++
		}
	}
	return c
}

func vgStacks() []string {
	buf := make([]byte, 1<<18)
	for {
		n := runtime.Stack(buf, true)
		if n < len(buf) {
			buf = buf[:n]
			break
		}
		buf = make([]byte, 2*len(buf))
	}
	return strings.Split(string(buf), "\n\n")
}

// some pool monitor is blocked in notify() on the read lock of GCPMultiEndpoint.mu
func vgMonitorParked() bool {
	for _, g := range vgStacks() {
		if strings.Contains(g, "(*monitoredConn).notify") && strings.Contains(g, "RLock") {
			return true
		}
	}
	return false
}

// every pool monitor sits in WaitForStateChange (none is about to deliver a report)
func vgMonitorsQuiescent() bool {
	for _, g := range vgStacks() {
		if strings.Contains(g, "(*monitoredConn).monitor") || strings.Contains(g, "grpcgcp.newMonitoredConn") {
			if strings.Contains(g, "(*monitoredConn).notify") || !strings.Contains(g, "WaitForStateChange") {
				return false
			}
		}
	}
	return true
}

// ---------------------------------------------------------------- runner
type vgRun struct {
	w      *bufio.Writer
	gme    *GCPMultiEndpoint
	closed bool
	dials  []*vgDial
	base   int // monitor goroutines alive before this history
	def    int
	outD   []string
	out2   string // UC: outputs of the second update
	waited int64
	nlines int
	ncalls int
	// blocked dial (UB): the next DialFunc call signals `blocked` and waits for `release`
	readyDial bool     // UR: DialFunc returns READY connections for endpoints that are up
	readyEPs  []string // endpoints dialled that way in the current call
	blockNext bool
	blocked   chan struct{}
	release   chan struct{}
}

func (r *vgRun) dialFunc(ctx context.Context, target string, dopts ...grpc.DialOption) (*grpc.ClientConn, error) {
	gid := vgGid()
	vgMu.Lock()
	c := vgCalls[gid]
	if c == nil {
		c = vgOrphan
	}
	d := &vgDial{id: len(r.dials), ep: target}
	r.dials = append(r.dials, d)
	fail := c.fails[target]
	vgAdmit[target] = false
	waitReady := r.readyDial && vgUp[target] && vgLis[target] != nil && !fail
	if waitReady {
		vgAdmit[target] = true
	}
	block := r.blockNext
	r.blockNext = false
	vgMu.Unlock()
	if block {
		r.blocked <- struct{}{}
		<-r.release
	}
	logDial := func(ok int) {
		vgMu.Lock()
		c.outD = append(c.outD, fmt.Sprintf("%d %d", vgEPID(target), ok))
		vgMu.Unlock()
	}
	if fail {
		logDial(0)
		return nil, vgDialErr
	}
	conn, err := grpc.DialContext(ctx, "passthrough:///"+target, dopts...)
	if err != nil {
		logDial(0)
		return nil, err
	}
	vgMu.Lock()
	d.conn = conn
	vgMu.Unlock()
	if waitReady {
		// like grpc.WithBlock(): hand the connection over only when it is READY
		t0 := time.Now()
		for time.Since(t0) < 3*time.Second && conn.GetState() != connectivity.Ready {
			conn.Connect()
			time.Sleep(200 * time.Microsecond)
		}
		if conn.GetState() == connectivity.Ready {
			vgMu.Lock()
			r.readyEPs = append(r.readyEPs, target)
			vgMu.Unlock()
			logDial(2)
			return conn, nil
		}
	}
	logDial(1)
	return conn, nil
}

func vgDialOptions() []grpc.DialOption {
	vgMu.Lock()
	timed := vgTimed
	vgMu.Unlock()
	if timed {
		return []grpc.DialOption{
			grpc.WithTransportCredentials(insecure.NewCredentials()),
			grpc.WithContextDialer(vgContextDialer),
			grpc.WithConnectParams(grpc.ConnectParams{
				Backoff:           backoff.Config{BaseDelay: 20 * time.Millisecond, Multiplier: 1.2, Jitter: 0, MaxDelay: 100 * time.Millisecond},
				MinConnectTimeout: time.Hour,
			}),
		}
	}
	return []grpc.DialOption{
		grpc.WithTransportCredentials(insecure.NewCredentials()),
		grpc.WithContextDialer(vgContextDialer),
		grpc.WithConnectParams(grpc.ConnectParams{
			Backoff:           backoff.Config{BaseDelay: 20 * time.Millisecond, Multiplier: 1.2, Jitter: 0, MaxDelay: 100 * time.Millisecond},
			MinConnectTimeout: time.Second,
		}),
	}
}

func (r *vgRun) makeOpts(o *vgOpts) *GCPMultiEndpointOptions {
	m := map[string]*multiendpoint.MultiEndpointOptions{}
	for _, me := range o.mes {
		if me.nilopt {
			m[vgMEName(me.name)] = nil
			continue
		}
		var eps []string
		for _, e := range me.eps {
			eps = append(eps, vgEPName(e))
		}
		m[vgMEName(me.name)] = &multiendpoint.MultiEndpointOptions{
			Endpoints:       eps,
			RecoveryTimeout: time.Duration(me.r),
			SwitchingDelay:  time.Duration(me.d),
		}
	}
	return &GCPMultiEndpointOptions{MultiEndpoints: m, Default: vgMEName(o.def), DialFunc: r.dialFunc}
}

func vgErrCode(err error) int {
	if err == nil {
		return 0
	}
	if err == vgDialErr {
		return 3
	}
	if strings.Contains(err.Error(), "default MultiEndpoint") {
		return 1
	}
	return 2
}

type vgRow struct {
	id, prio, st int
	tmrPtr       uintptr // the futureChange timer object (0: nil)
}

func vgReadME(me multiendpoint.MultiEndpoint) (cur int, rows []vgRow) {
	if me == nil {
		return -1, nil
	}
	if l, ok := me.(interface {
		RLock()
		RUnlock()
	}); ok {
		l.RLock()
		defer l.RUnlock()
	}
	v := reflect.ValueOf(me)
	if v.Kind() != reflect.Ptr || v.IsNil() {
		return -1, nil
	}
	v = v.Elem()
	cur = vgEPID(v.FieldByName("current").String())
	it := v.FieldByName("endpoints").MapRange()
	for it.Next() {
		e := it.Value().Elem()
		id := vgEPID(it.Key().String())
		if e.FieldByName("id").String() != it.Key().String() {
			id = -3
		}
		var tp uintptr
		if fc := e.FieldByName("futureChange"); fc.IsValid() && !fc.IsNil() {
			if c := fc.Elem(); c.Kind() == reflect.Ptr {
				tp = c.Pointer()
			}
		}
		rows = append(rows, vgRow{id, int(e.FieldByName("priority").Int()), int(e.FieldByName("status").Int()), tp})
	}
	sort.Slice(rows, func(i, j int) bool { return rows[i].id < rows[j].id })
	return cur, rows
}

func (r *vgRun) dialOf(c *grpc.ClientConn) *vgDial {
	for _, d := range r.dials {
		if d.conn == c {
			return d
		}
	}
	return nil
}

func (r *vgRun) route(c int) (s string) {
	defer func() {
		if recover() != nil {
			s = "P"
		}
	}()
	if r.gme == nil {
		return "P"
	}
	conn := r.gme.pickConn(vgCtx(c))
	d := r.dialOf(conn)
	if d == nil {
		return "P"
	}
	open := 1
	if conn.GetState() == connectivity.Shutdown {
		open = 0
	}
	return fmt.Sprintf("%d %d %d", vgEPID(d.ep), d.id, open)
}

func vgCtxTok(c int) string {
	if c < 0 {
		return "-"
	}
	return strconv.Itoa(c)
}

// wait until the monitor census is what the pool table says (bounded)
func (r *vgRun) settle() int {
	want := 0
	if r.gme != nil && !r.closed {
		r.gme.mu.Lock()
		want = len(r.gme.pools)
		r.gme.mu.Unlock()
	}
	deadline := time.Now().Add(250 * time.Millisecond)
	for {
		c := vgCensus() - r.base
		if c == want || time.Now().After(deadline) {
			return c
		}
		time.Sleep(500 * time.Microsecond)
	}
}

func (r *vgRun) observe() string {
	census := r.settle()
	var sb strings.Builder
	if r.gme == nil {
		fmt.Fprintf(&sb, "M 0 Q 0 DEF %d", r.def)
	} else {
		r.resolveTimers()
		g := r.gme
		g.mu.Lock()
		var names []string
		for n := range g.mes {
			names = append(names, n)
		}
		sort.Slice(names, func(i, j int) bool { return vgMEID(names[i]) < vgMEID(names[j]) })
		fmt.Fprintf(&sb, "M %d", len(names))
		for _, n := range names {
			cur, rows := vgReadME(g.mes[n])
			fmt.Fprintf(&sb, " %d %d %d", vgMEID(n), cur, len(rows))
			for _, x := range rows {
				fmt.Fprintf(&sb, " %d %d %d %d", x.id, x.prio, x.st, vgTimerIndex(x.tmrPtr))
			}
		}
		var eps []string
		for e := range g.pools {
			eps = append(eps, e)
		}
		sort.Slice(eps, func(i, j int) bool { return vgEPID(eps[i]) < vgEPID(eps[j]) })
		fmt.Fprintf(&sb, " Q %d", len(eps))
		for _, e := range eps {
			mc := g.pools[e]
			id, open, ready := -1, 0, 0
			if mc != nil && mc.conn != nil {
				if d := r.dialOf(mc.conn); d != nil {
					id = d.id
				}
				st := mc.conn.GetState()
				if st != connectivity.Shutdown {
					open = 1
				}
				if st == connectivity.Ready {
					ready = 1
				}
			}
			fmt.Fprintf(&sb, " %d %d %d %d", vgEPID(e), id, open, ready)
		}
		fmt.Fprintf(&sb, " DEF %d", vgMEID(g.defaultName))
		g.mu.Unlock()
	}
	fmt.Fprintf(&sb, " RT %d", len(vgProbes))
	for _, c := range vgProbes {
		fmt.Fprintf(&sb, " %s %s", vgCtxTok(c), r.route(c))
	}
	var open []int
	for _, d := range r.dials {
		if d.conn != nil && d.conn.GetState() != connectivity.Shutdown {
			open = append(open, d.id)
		}
	}
	fmt.Fprintf(&sb, " O %d", len(open))
	for _, id := range open {
		fmt.Fprintf(&sb, " %d", id)
	}
	fmt.Fprintf(&sb, " G %d", census)
	return sb.String()
}

func (r *vgRun) emit(o vgOp, code int, call int) {
	fmt.Fprintf(r.w, "%s ; E %d D %d", o.String(), code, len(r.outD))
	for _, d := range r.outD {
		fmt.Fprintf(r.w, " %s", d)
	}
	fmt.Fprintf(r.w, " R %d W %d%s ; %s\n", call, r.waited, r.out2, r.observe())
	r.outD = nil
	r.out2 = ""
	r.waited = 0
	r.nlines++
}

// ME statuses of endpoint ep: true iff every MultiEndpoint containing ep has it (available == want)
func (r *vgRun) delivered(ep string, want bool) bool {
	for _, me := range r.gme.mes {
		_, rows := vgReadME(me)
		for _, x := range rows {
			if x.id == vgEPID(ep) && (x.st == 1) != want {
				return false
			}
		}
	}
	return true
}

// wait (bounded by 3 s) until the pool of ep is READY == want and every MultiEndpoint knows
func (r *vgRun) waitReady(ep string, want bool) {
	mc := r.gme.pools[ep]
	if mc == nil {
		return
	}
	t0 := time.Now()
	for time.Since(t0) < 3*time.Second {
		if (mc.conn.GetState() == connectivity.Ready) == want && r.delivered(ep, want) {
			break
		}
		if want {
			mc.conn.Connect()
		}
		time.Sleep(200 * time.Microsecond)
	}
	r.waited = int64(time.Since(t0) / time.Millisecond)
}

func (r *vgRun) poolOpen(ep string) *monitoredConn {
	if r.gme == nil || r.closed {
		return nil
	}
	mc := r.gme.pools[ep]
	if mc == nil || mc.conn == nil || mc.conn.GetState() == connectivity.Shutdown {
		return nil
	}
	return mc
}

// let the pool of ep connect (its server is up) and record the change as a P line
func (r *vgRun) admit(ep string) {
	mc := r.poolOpen(ep)
	if mc == nil {
		return
	}
	vgMu.Lock()
	vgAdmit[ep] = true
	vgMu.Unlock()
	vgWakeDialers()
	mc.conn.ResetConnectBackoff()
	mc.conn.Connect()
	r.waitReady(ep, true)
	r.emit(vgOp{kind: "P", e: vgEPID(ep), b: 1}, 0, 0)
}

// after an update: admit the not yet admitted pools whose server is up, in endpoint order
func (r *vgRun) admitNew() {
	if r.gme == nil || r.closed {
		return
	}
	var eps []string
	vgMu.Lock()
	for e := range r.gme.pools {
		if vgUp[e] && !vgAdmit[e] {
			eps = append(eps, e)
		}
	}
	vgMu.Unlock()
	sort.Slice(eps, func(i, j int) bool { return vgEPID(eps[i]) < vgEPID(eps[j]) })
	for _, e := range eps {
		r.admit(e)
	}
}

// runs NewGCPMultiEndpoint (H) / UpdateMultiEndpoints in the calling goroutine; returns the
// error code and the dial log of this invocation
func (r *vgRun) update(o vgOp) (code int, dials []string) {
	opts := r.makeOpts(o.opts)
	c := &vgCall{fails: map[string]bool{}}
	for _, e := range o.opts.fails {
		c.fails[vgEPName(e)] = true
	}
	gid := vgGid()
	vgMu.Lock()
	vgCalls[gid] = c
	vgMu.Unlock()
	defer func() {
		if recover() != nil {
			code = 9
		}
		vgMu.Lock()
		delete(vgCalls, gid)
		dials = c.outD
		vgMu.Unlock()
	}()
	if o.kind == "H" {
		r.def = o.opts.def
		g, err := NewGCPMultiEndpoint(opts, vgDialOptions()...)
		if err == nil {
			r.gme = g
		}
		return vgErrCode(err), nil
	}
	return vgErrCode(r.gme.UpdateMultiEndpoints(opts)), nil
}

type vgRes struct {
	code  int
	dials []string
}

// some goroutine is inside UpdateMultiEndpoints waiting for the write lock of gme.mu
func vgUpdateParked() bool {
	for _, g := range vgStacks() {
		if strings.Contains(g, ".UpdateMultiEndpoints") && strings.Contains(g, "(*RWMutex).Lock") {
			return true
		}
	}
	return false
}

// UR: update whose new pools on live endpoints are READY when DialFunc returns them
func (r *vgRun) updateReady(o vgOp) {
	r.readyDial, r.readyEPs = true, nil
	code, dials := r.update(vgOp{kind: "U", opts: o.opts})
	r.readyDial = false
	r.outD = dials
	eps := append([]string{}, r.readyEPs...)
	sort.Slice(eps, func(i, j int) bool { return vgEPID(eps[i]) < vgEPID(eps[j]) })
	// "every MultiEndpoint reflects the connectivity of the pools": wait until the monitors are
	// idle and the MultiEndpoints know about the READY new pools (status sync or first report)
	t0 := time.Now()
	var stuck time.Time
	for time.Since(t0) < 3*time.Second {
		ok := vgMonitorsQuiescent()
		all := true
		for _, ep := range eps {
			if mc := r.poolOpen(ep); mc != nil && !r.delivered(ep, mc.conn.GetState() == connectivity.Ready) {
				all = false
			}
		}
		if ok && all {
			break
		}
		if !ok {
			stuck = time.Time{}
		} else if stuck.IsZero() {
			stuck = time.Now()
		} else if time.Since(stuck) > 500*time.Millisecond {
			break
		}
		time.Sleep(500 * time.Microsecond)
	}
	r.waited = int64(time.Since(t0) / time.Millisecond)
	r.emit(o, code, 0)
	for _, ep := range eps {
		if mc := r.poolOpen(ep); mc != nil {
			b := 0
			if mc.conn.GetState() == connectivity.Ready {
				b = 1
			}
			r.emit(vgOp{kind: "P", e: vgEPID(ep), b: b}, 0, 0)
		}
	}
	r.admitNew()
}

// UC: update 1 with a blocked dial, update 2 arriving meanwhile from another goroutine
func (r *vgRun) updateConcurrent(o vgOp) {
	r.blocked = make(chan struct{}, 1)
	r.release = make(chan struct{})
	vgMu.Lock()
	r.blockNext = true
	vgMu.Unlock()
	d1 := make(chan vgRes, 1)
	d2 := make(chan vgRes, 1)
	go func() {
		c, d := r.update(vgOp{kind: "U", opts: o.opts})
		d1 <- vgRes{c, d}
	}()
	var r1, r2 vgRes
	select {
	case r1 = <-d1: // no dial: nothing to overlap with; plain sequence
		vgMu.Lock()
		r.blockNext = false
		vgMu.Unlock()
		c, d := r.update(vgOp{kind: "U", opts: o.opt2})
		r2 = vgRes{c, d}
	case <-r.blocked:
		go func() {
			c, d := r.update(vgOp{kind: "U", opts: o.opt2})
			d2 <- vgRes{c, d}
		}()
		t0 := time.Now()
		got2, parked := false, false
		for time.Since(t0) < time.Second && !got2 && !parked {
			select {
			case r2 = <-d2:
				got2 = true
			default:
				if vgUpdateParked() {
					parked = true
				} else {
					time.Sleep(200 * time.Microsecond)
				}
			}
		}
		r.waited = int64(time.Since(t0) / time.Millisecond)
		close(r.release)
		r1 = <-d1
		if !got2 {
			r2 = <-d2
		}
	}
	r.outD = r1.dials
	var sb strings.Builder
	fmt.Fprintf(&sb, " V %d D %d", r2.code, len(r2.dials))
	for _, d := range r2.dials {
		fmt.Fprintf(&sb, " %s", d)
	}
	r.out2 = sb.String()
	r.emit(o, r1.code, 0)
	r.admitNew()
}

// UB: update with a blocked dial and a down/up flap of the kept endpoint o.e while gme.mu is held
func (r *vgRun) updateBlocked(o vgOp) {
	ep := vgEPName(o.e)
	mc := r.poolOpen(ep)
	vgMu.Lock()
	up := vgUp[ep]
	vgMu.Unlock()
	flap := mc != nil && up && mc.conn.GetState() == connectivity.Ready
	r.blocked = make(chan struct{}, 1)
	r.release = make(chan struct{})
	vgMu.Lock()
	r.blockNext = true
	vgMu.Unlock()
	done := make(chan vgRes, 1)
	go func() {
		c, d := r.update(vgOp{kind: "U", opts: o.opts})
		done <- vgRes{c, d}
	}()
	var res vgRes
	flapped := false
	select {
	case res = <-done: // no dial was needed (or the options were rejected): nothing held the lock
	case <-r.blocked:
		if flap {
			flapped = true
			vgStopServer(ep)
			t0 := time.Now()
			for time.Since(t0) < 3*time.Second && mc.conn.GetState() == connectivity.Ready {
				time.Sleep(200 * time.Microsecond)
			}
			// the monitor has seen the outage and waits for gme.mu in notify
			t1 := time.Now()
			for time.Since(t1) < time.Second && !vgMonitorParked() {
				time.Sleep(500 * time.Microsecond)
			}
			vgStartServer(ep)
			t2 := time.Now()
			for time.Since(t2) < 3*time.Second && mc.conn.GetState() != connectivity.Ready {
				mc.conn.ResetConnectBackoff()
				mc.conn.Connect()
				time.Sleep(time.Millisecond)
			}
		}
		close(r.release)
		res = <-done
	}
	vgMu.Lock()
	r.blockNext = false
	vgMu.Unlock()
	code := res.code
	r.outD = res.dials
	if flapped {
		// "follows within bounded time": the monitors are quiescent and every MultiEndpoint
		// containing the endpoint knows the final readiness of its pool
		t0 := time.Now()
		var stuck time.Time // since when: all monitors idle in WaitForStateChange, report still missing
		for time.Since(t0) < 3*time.Second {
			want := mc.conn.GetState() == connectivity.Ready
			q := vgMonitorsQuiescent()
			if q && r.delivered(ep, want) {
				break
			}
			if !q {
				stuck = time.Time{}
			} else if stuck.IsZero() {
				stuck = time.Now()
			} else if time.Since(stuck) > 500*time.Millisecond {
				// nobody is going to deliver anything any more: the transition is lost
				break
			}
			time.Sleep(500 * time.Microsecond)
		}
		r.waited = int64(time.Since(t0) / time.Millisecond)
	}
	r.emit(o, code, 0)
	if flapped && r.poolOpen(ep) != nil {
		b := 0
		if mc.conn.GetState() == connectivity.Ready {
			b = 1
		}
		r.emit(vgOp{kind: "P", e: o.e, b: b}, 0, 0)
	}
	r.admitNew()
}

func (r *vgRun) call(c int) (res int) {
	defer func() {
		if recover() != nil {
			res = -1
		}
	}()
	vgMu.Lock()
	vgGot = vgGot[:0]
	vgMu.Unlock()
	ctx, cancel := context.WithTimeout(vgCtx(c), 300*time.Millisecond)
	defer cancel()
	// every other call of a history goes through NewStream: both entry points must route alike
	r.ncalls++
	var err error
	if r.ncalls%2 == 0 {
		var st grpc.ClientStream
		st, err = r.gme.NewStream(ctx, &grpc.StreamDesc{}, "/vg.S/M")
		if err == nil {
			err = st.SendMsg(&emptypb.Empty{})
		}
		if err == nil {
			err = st.CloseSend()
		}
		if err == nil {
			err = st.RecvMsg(&emptypb.Empty{})
		}
	} else {
		err = r.gme.Invoke(ctx, "/vg.S/M", &emptypb.Empty{}, &emptypb.Empty{})
	}
	vgMu.Lock()
	defer vgMu.Unlock()
	if err != nil || len(vgGot) == 0 {
		return -2
	}
	return vgEPID(vgGot[len(vgGot)-1])
}

func vgIsTimed(h []vgOp) bool {
	for _, o := range h {
		switch o.kind {
		case "TA", "TB", "TE":
			return true
		}
		for _, op := range []*vgOpts{o.opts, o.opt2} {
			if op != nil {
				for _, m := range op.mes {
					if m.r != 0 || m.d != 0 {
						return true
					}
				}
			}
		}
	}
	return false
}

func (r *vgRun) begin(timed bool) {
	vgMu.Lock()
	vgUp = map[string]bool{}
	vgAdmit = map[string]bool{}
	vgTimed = timed
	vgMu.Unlock()
	vgClk.mu.Lock()
	vgClk.now = 0
	vgClk.timers = nil
	vgClk.byPtr = map[uintptr]*vgTimer{}
	vgClk.cur = r
	vgClk.mu.Unlock()
	r.gme, r.closed, r.dials, r.outD, r.waited = nil, false, nil, nil, 0
	r.ncalls = 0
	r.base = vgCensus()
}

func (r *vgRun) runHistory(h []vgOp) {
	r.begin(vgIsTimed(h))
	defer r.cleanup()
	for i, o := range h {
		if !r.runOp(i, o) {
			return
		}
	}
}

// the timer k (creation order) of the MultiEndpoint called name, or nil
func (r *vgRun) timerOf(name, k int) *vgTimer {
	if r.gme == nil {
		return nil
	}
	r.resolveTimers()
	me, ok := r.gme.mes[vgMEName(name)]
	if !ok {
		return nil
	}
	vgClk.mu.Lock()
	defer vgClk.mu.Unlock()
	ts := vgTimersOf(vgMEPtr(me))
	if k < 0 || k >= len(ts) {
		return nil
	}
	return ts[k]
}

// runs one operation; false: the history ends here
func (r *vgRun) runOp(i int, o vgOp) bool {
	switch o.kind {
	case "H":
		if i != 0 {
			return false
		}
		code, dials := r.update(o)
		r.outD = dials
		r.emit(o, code, 0)
		if r.gme == nil {
			return false
		}
		r.admitNew()
	case "U":
		if r.gme == nil {
			return false
		}
		code, dials := r.update(o)
		r.outD = dials
		r.emit(o, code, 0)
		r.admitNew()
	case "UR":
		if r.gme == nil || r.closed {
			return false
		}
		r.updateReady(o)
	case "UB":
		if r.gme == nil || r.closed {
			return false
		}
		r.updateBlocked(o)
	case "UC":
		if r.gme == nil || r.closed {
			return false
		}
		r.updateConcurrent(o)
	case "TA": // the virtual clock advances
		if r.gme == nil {
			return false
		}
		if o.e >= 0 {
			vgClk.mu.Lock()
			vgClk.now += int64(o.e)
			vgClk.mu.Unlock()
		}
		r.emit(o, 0, 0)
	case "TB": // the runtime fires a due timer: Stop() returns false from now on
		if r.gme == nil {
			return false
		}
		if t := r.timerOf(o.e, o.b); t != nil {
			vgClk.mu.Lock()
			if t.st == 0 && t.due <= vgClk.now {
				t.st = 2
			}
			vgClk.mu.Unlock()
		}
		r.emit(o, 0, 0)
	case "TE": // ... and its callback runs
		if r.gme == nil {
			return false
		}
		if t := r.timerOf(o.e, o.b); t != nil {
			vgClk.mu.Lock()
			run := t.st == 2
			if run {
				t.st = 3
			}
			vgClk.mu.Unlock()
			if run {
				t.f()
			}
		}
		r.emit(o, 0, 0)
	case "SU":
		ep := vgEPName(o.e)
		r.emit(o, 0, 0)
		vgMu.Lock()
		up := vgUp[ep]
		vgMu.Unlock()
		if !up {
			vgStartServer(ep)
			r.admit(ep)
		}
	case "SD":
		ep := vgEPName(o.e)
		r.emit(o, 0, 0)
		vgMu.Lock()
		up := vgUp[ep]
		vgMu.Unlock()
		if up {
			mc := r.poolOpen(ep)
			wasReady := mc != nil && mc.conn.GetState() == connectivity.Ready
			vgStopServer(ep)
			if wasReady {
				r.waitReady(ep, false)
				r.emit(vgOp{kind: "P", e: o.e, b: 0}, 0, 0)
			}
		}
	case "X":
		if r.gme == nil {
			return false
		}
		res := r.call(o.e)
		r.emit(o, 0, res)
	case "C":
		if r.gme == nil {
			return false
		}
		r.gme.Close()
		r.closed = true
		r.emit(o, 0, 0)
	}
	return true
}

func (r *vgRun) cleanup() {
	if r.gme != nil && !r.closed {
		func() {
			defer func() { recover() }()
			r.gme.Close()
		}()
	}
	for _, d := range r.dials {
		if d.conn != nil {
			d.conn.Close()
		}
	}
	vgMu.Lock()
	var eps []string
	for e := range vgSrv {
		eps = append(eps, e)
	}
	vgMu.Unlock()
	for _, e := range eps {
		vgStopServer(e)
	}
	vgWakeDialers()
	r.gme = nil
	// let the cancelled monitors exit, so that the next history starts from a stable census
	deadline := time.Now().Add(250 * time.Millisecond)
	for vgCensus() > r.base && time.Now().Before(deadline) {
		time.Sleep(500 * time.Microsecond)
	}
}

// ---------------------------------------------------------------- generator
func vgPickDistinct(g *vgRng, n, universe int) []int {
	var out []int
	for len(out) < n {
		x := 1 + g.intn(universe)
		dup := false
		for _, y := range out {
			if y == x {
				dup = true
			}
		}
		if !dup {
			out = append(out, x)
		}
	}
	return out
}

// options derived from the previous ones: keep/rename/reorder/add/remove, then maybe break them
// vgBig: the history under generation is a large one (many endpoints / MultiEndpoints / long lists)
var vgBig bool

func vgGenOpts(g *vgRng, prev *vgOpts, nEP int) *vgOpts {
	o := &vgOpts{}
	used := map[int]bool{}
	nameN, maxME, maxEP := 5, 3, 3
	if vgBig {
		nameN, maxME, maxEP = 16, 12, 10
	}
	if prev != nil {
		for _, m := range prev.mes {
			if m.nilopt || len(m.eps) == 0 || !g.pct(70) || used[m.name] {
				continue
			}
			nm := vgME{name: m.name, eps: append([]int{}, m.eps...)}
			switch g.intn(6) {
			case 0: // reorder
				for i := len(nm.eps) - 1; i > 0; i-- {
					j := g.intn(i + 1)
					nm.eps[i], nm.eps[j] = nm.eps[j], nm.eps[i]
				}
			case 1: // add an endpoint
				nm.eps = append(nm.eps, 1+g.intn(nEP))
				if g.pct(90) {
					nm.eps = vgDedup(nm.eps)
				}
			case 2: // drop one
				if len(nm.eps) > 1 {
					k := g.intn(len(nm.eps))
					nm.eps = append(nm.eps[:k], nm.eps[k+1:]...)
				}
			case 3: // rename: same endpoints under another name
				nm.name = g.intn(nameN)
			case 4: // replace the list
				nm.eps = vgPickDistinct(g, 1+g.intn(maxEP), nEP)
			}
			if used[nm.name] {
				continue
			}
			used[nm.name] = true
			o.mes = append(o.mes, nm)
		}
	}
	want := 1 + g.intn(maxME)
	for len(o.mes) < want {
		n := g.intn(nameN)
		if used[n] {
			continue
		}
		used[n] = true
		o.mes = append(o.mes, vgME{name: n, eps: vgPickDistinct(g, 1+g.intn(maxEP), nEP)})
	}
	// shuffle the (textual) order of the map entries
	for i := len(o.mes) - 1; i > 0; i-- {
		j := g.intn(i + 1)
		o.mes[i], o.mes[j] = o.mes[j], o.mes[i]
	}
	o.def = o.mes[g.intn(len(o.mes))].name
	if prev != nil && g.pct(40) {
		for _, m := range o.mes {
			if m.name == prev.def {
				o.def = prev.def
			}
		}
	}
	// invalidity
	if g.pct(35) {
		switch g.intn(5) {
		case 0: // default without options
			for tries := 0; ; tries++ {
				n := g.intn(6)
				if n == 5 {
					n = 9
				}
				if tries > 40 { // every small name is taken (large configurations): a name nobody uses
					n = 99
				}
				if !used[n] {
					o.def = n
					break
				}
			}
		case 1: // nil options
			o.mes[g.intn(len(o.mes))].nilopt = true
		case 2: // empty endpoint list
			o.mes[g.intn(len(o.mes))].eps = nil
		case 3, 4: // dial failures
			for k := 0; k <= g.intn(2); k++ {
				o.fails = append(o.fails, 1+g.intn(nEP))
			}
			o.fails = vgDedup(o.fails)
		}
		if g.pct(15) && len(o.mes) > 1 { // a second problem elsewhere
			o.mes[g.intn(len(o.mes))].eps = nil
		}
	}
	return o
}

func vgDedup(xs []int) []int {
	var out []int
	for _, x := range xs {
		dup := false
		for _, y := range out {
			if x == y {
				dup = true
			}
		}
		if !dup {
			out = append(out, x)
		}
	}
	return out
}

func vgValid(o *vgOpts) bool {
	okDef := false
	for _, m := range o.mes {
		if m.nilopt || len(m.eps) == 0 {
			return false
		}
		if m.name == o.def {
			okDef = true
		}
	}
	return okDef
}

func vgGenHistory(g *vgRng, maxOps int, livePct int) []vgOp {
	nEP := 3 + g.intn(4)
	live := g.pct(livePct)
	vgBig = !live && g.intn(30) == 0
	defer func() { vgBig = false }()
	if vgBig {
		nEP = 12 + g.intn(20)
	}
	var h []vgOp
	first := vgGenOpts(g, nil, nEP)
	h = append(h, vgOp{kind: "H", opts: first})
	var prev *vgOpts
	if vgValid(first) {
		prev = first
	}
	n := 2 + g.intn(maxOps)
	if live && n > 14 {
		n = 14
	}
	upSet := map[int]bool{}
	for i := 0; i < n; i++ {
		x := g.intn(100)
		switch {
		case live && x < 28:
			e := 1 + g.intn(nEP)
			upSet[e] = true
			h = append(h, vgOp{kind: "SU", e: e})
		case live && x < 40:
			e := 1 + g.intn(nEP)
			delete(upSet, e)
			h = append(h, vgOp{kind: "SD", e: e})
		case live && x < 50 && prev != nil:
			// blocked update with a flap of a kept endpoint that is (probably) READY
			var cands []int
			for _, e := range vgMentioned(prev) {
				if upSet[e] {
					cands = append(cands, e)
				}
			}
			if len(cands) == 0 {
				continue
			}
			o := vgAddFresh(g, prev)
			h = append(h, vgOp{kind: "UB", opts: o, e: cands[g.intn(len(cands))]})
			prev = o
		case live && x >= 84 && x < 92 && prev != nil:
			// update that adds a live endpoint whose pool is READY when DialFunc returns it
			used := map[int]bool{}
			for _, e := range vgMentioned(prev) {
				used[e] = true
			}
			var cands []int
			for e := range upSet {
				if !used[e] {
					cands = append(cands, e)
				}
			}
			if len(cands) == 0 {
				continue
			}
			sort.Ints(cands)
			o := vgAddEndpoint(g, prev, cands[g.intn(len(cands))])
			h = append(h, vgOp{kind: "UR", opts: o})
			prev = o
		case x >= 92 && prev != nil:
			// update 2 arrives while the first dial of update 1 blocks
			o1 := vgAddFresh(g, prev)
			o2 := vgGenOpts(g, o1, nEP)
			h = append(h, vgOp{kind: "UC", opts: o1, opt2: o2})
			prev = o1
			if vgValid(o2) && len(o2.fails) == 0 {
				prev = o2
			}
		case live && x < 60:
			c := vgProbes[g.intn(len(vgProbes))]
			h = append(h, vgOp{kind: "X", e: c})
		default:
			o := vgGenOpts(g, prev, nEP)
			h = append(h, vgOp{kind: "U", opts: o})
			if vgValid(o) && len(o.fails) == 0 {
				prev = o
			}
		}
	}
	if g.pct(75) {
		h = append(h, vgOp{kind: "C"})
	}
	return h
}

func vgMentioned(o *vgOpts) []int {
	var out []int
	for _, m := range o.mes {
		out = append(out, m.eps...)
	}
	return vgDedup(out)
}

func vgCopyOpts(o *vgOpts) *vgOpts {
	c := &vgOpts{def: o.def}
	for _, m := range o.mes {
		c.mes = append(c.mes, vgME{name: m.name, r: m.r, d: m.d, eps: append([]int{}, m.eps...)})
	}
	return c
}

// the same (valid) options plus one endpoint that has no pool yet, so that the update must dial
func vgAddFresh(g *vgRng, prev *vgOpts) *vgOpts {
	o := vgCopyOpts(prev)
	used := map[int]bool{}
	for _, e := range vgMentioned(prev) {
		used[e] = true
	}
	f := 1
	for used[f] {
		f++
	}
	if g.pct(50) || len(o.mes) >= 4 {
		k := g.intn(len(o.mes))
		if g.pct(50) {
			o.mes[k].eps = append(o.mes[k].eps, f)
		} else {
			o.mes[k].eps = append([]int{f}, o.mes[k].eps...)
		}
	} else {
		usedN := map[int]bool{}
		for _, m := range o.mes {
			usedN[m.name] = true
		}
		n := 0
		for usedN[n] {
			n++
		}
		o.mes = append(o.mes, vgME{name: n, eps: []int{f, vgMentioned(prev)[0]}})
	}
	return o
}

// dedicated scenario: two or three MultiEndpoints over shared live endpoints, then updates
// whose dial blocks while a kept endpoint goes down and comes back
func vgGenFlapScenario(g *vgRng) []vgOp {
	eps := vgPickDistinct(g, 2+g.intn(2), 4)
	a, b := eps[0], eps[1]
	o := &vgOpts{def: 1, mes: []vgME{{name: 1, eps: []int{a, b}}, {name: 2, eps: []int{b, a}}}}
	if len(eps) > 2 {
		o.mes = append(o.mes, vgME{name: 3, eps: []int{eps[2], a}})
	}
	if g.pct(30) {
		o.def = 2
	}
	h := []vgOp{{kind: "H", opts: o}}
	ups := []int{a}
	if g.pct(70) {
		ups = append(ups, b)
	}
	if g.pct(50) {
		ups[0], ups[len(ups)-1] = ups[len(ups)-1], ups[0]
	}
	for _, e := range ups {
		h = append(h, vgOp{kind: "SU", e: e})
	}
	prev := o
	rounds := 1 + g.intn(2)
	for i := 0; i < rounds; i++ {
		nx := vgAddFresh(g, prev)
		h = append(h, vgOp{kind: "UB", opts: nx, e: ups[g.intn(len(ups))]})
		prev = nx
		h = append(h, vgOp{kind: "X", e: vgProbes[g.intn(4)]})
	}
	if g.pct(40) {
		h = append(h, vgOp{kind: "SD", e: ups[0]})
		h = append(h, vgOp{kind: "X", e: -1})
	}
	if g.pct(75) {
		h = append(h, vgOp{kind: "C"})
	}
	return h
}

// the same options with endpoint f added to one MultiEndpoint (front or back) or as a new MultiEndpoint
func vgAddEndpoint(g *vgRng, prev *vgOpts, f int) *vgOpts {
	o := vgCopyOpts(prev)
	if g.pct(70) || len(o.mes) >= 4 {
		k := g.intn(len(o.mes))
		if g.pct(60) {
			o.mes[k].eps = append([]int{f}, o.mes[k].eps...)
		} else {
			o.mes[k].eps = append(o.mes[k].eps, f)
		}
	} else {
		usedN := map[int]bool{}
		for _, m := range o.mes {
			usedN[m.name] = true
		}
		n := 0
		for usedN[n] {
			n++
		}
		o.mes = append(o.mes, vgME{name: n, eps: []int{f, vgMentioned(prev)[0]}})
	}
	return o
}

// dedicated scenario: live endpoints are added by updates whose DialFunc returns READY pools
func vgGenReadyScenario(g *vgRng) []vgOp {
	eps := vgPickDistinct(g, 3, 5)
	a, b, c := eps[0], eps[1], eps[2]
	o := &vgOpts{def: 1, mes: []vgME{{name: 1, eps: []int{b}}}}
	if g.pct(50) {
		o.mes = append(o.mes, vgME{name: 2, eps: []int{b, c}})
	}
	h := []vgOp{{kind: "H", opts: o}}
	if g.pct(70) {
		h = append(h, vgOp{kind: "SU", e: b})
	}
	h = append(h, vgOp{kind: "SU", e: a})
	prev := vgAddEndpoint(g, o, a)
	h = append(h, vgOp{kind: "UR", opts: prev}, vgOp{kind: "X", e: vgProbes[g.intn(4)]})
	if g.pct(50) {
		used := false
		for _, e := range vgMentioned(prev) {
			if e == c {
				used = true
			}
		}
		if !used {
			h = append(h, vgOp{kind: "SU", e: c})
			prev = vgAddEndpoint(g, prev, c)
			h = append(h, vgOp{kind: "UR", opts: prev}, vgOp{kind: "X", e: -1})
		}
	}
	if g.pct(40) {
		h = append(h, vgOp{kind: "SD", e: a}, vgOp{kind: "X", e: -1})
	}
	if g.pct(75) {
		h = append(h, vgOp{kind: "C"})
	}
	return h
}

// dedicated scenario: update 1 keeps/extends the configuration and blocks in its dial; update 2
// (arriving meanwhile) replaces, shrinks, renames or breaks it
func vgGenConcScenario(g *vgRng) []vgOp {
	nEP := 3 + g.intn(3)
	var first *vgOpts
	for first == nil || !vgValid(first) || len(first.fails) > 0 {
		first = vgGenOpts(g, nil, nEP)
	}
	h := []vgOp{{kind: "H", opts: first}}
	prev := first
	rounds := 1 + g.intn(3)
	for i := 0; i < rounds; i++ {
		o1 := vgAddFresh(g, prev)
		var o2 *vgOpts
		switch g.intn(4) {
		case 0: // drop everything update 1 keeps: one MultiEndpoint (same name as the default) on a new endpoint
			f := 1
			used := map[int]bool{}
			for _, e := range vgMentioned(o1) {
				used[e] = true
			}
			for used[f] {
				f++
			}
			o2 = &vgOpts{def: o1.def, mes: []vgME{{name: o1.def, eps: []int{f}}}}
		case 1: // back to the previous options (drops the endpoint update 1 is dialling)
			o2 = vgCopyOpts(prev)
		default:
			o2 = vgGenOpts(g, o1, nEP)
		}
		h = append(h, vgOp{kind: "UC", opts: o1, opt2: o2})
		prev = o1
		if vgValid(o2) && len(o2.fails) == 0 {
			prev = o2
		}
		if g.pct(30) {
			h = append(h, vgOp{kind: "U", opts: vgGenOpts(g, prev, nEP)})
			if o := h[len(h)-1].opts; vgValid(o) && len(o.fails) == 0 {
				prev = o
			}
		}
	}
	if g.pct(75) {
		h = append(h, vgOp{kind: "C"})
	}
	return h
}

// ---------------------------------------------------------------- timed histories (online generator)
type vgTK struct{ name, k int }

// pending-and-due timers, firing timers and the next due time of the registered MultiEndpoints;
// blocked: some pending/firing timer is not the futureChange of an endpoint (a delayed switch,
// or the recovery timer of a removed endpoint)
func (r *vgRun) timerState() (due, firing []vgTK, blocked bool, next int64) {
	next = -1
	if r.gme == nil {
		return
	}
	r.resolveTimers()
	var names []string
	for n := range r.gme.mes {
		names = append(names, n)
	}
	sort.Strings(names)
	for _, n := range names {
		me := r.gme.mes[n]
		_, rows := vgReadME(me)
		ref := map[uintptr]bool{}
		for _, x := range rows {
			ref[x.tmrPtr] = true
		}
		vgClk.mu.Lock()
		for k, t := range vgTimersOf(vgMEPtr(me)) {
			if t.st != 0 && t.st != 2 {
				continue
			}
			if !ref[reflect.ValueOf(t).Pointer()] {
				blocked = true
			}
			if t.st == 2 {
				firing = append(firing, vgTK{vgMEID(n), k})
			} else {
				if t.due <= vgClk.now {
					due = append(due, vgTK{vgMEID(n), k})
				}
				if next < 0 || t.due < next {
					next = t.due
				}
			}
		}
		vgClk.mu.Unlock()
	}
	return
}

var vgDurs = []int64{0, 5, 10, 20}

// a reconfiguration that cannot make the status-sync loop order-dependent: endpoints are removed,
// endpoints whose server is DOWN are inserted, MultiEndpoints are removed or added (over down
// endpoints); the relative order of the kept endpoints is not changed
func vgTimedEdit(g *vgRng, prev *vgOpts, up map[int]bool, nEP int) *vgOpts {
	o := vgCopyOpts(prev)
	var downs []int
	for e := 1; e <= nEP; e++ {
		if !up[e] {
			downs = append(downs, e)
		}
	}
	if len(o.mes) > 1 && g.pct(25) {
		k := g.intn(len(o.mes))
		o.mes = append(o.mes[:k], o.mes[k+1:]...)
	}
	for i := range o.mes {
		m := &o.mes[i]
		if len(m.eps) > 1 && g.pct(30) {
			k := g.intn(len(m.eps))
			m.eps = append(m.eps[:k], m.eps[k+1:]...)
		}
		if len(downs) > 0 && g.pct(40) {
			f := downs[g.intn(len(downs))]
			has := false
			for _, e := range m.eps {
				if e == f {
					has = true
				}
			}
			if !has {
				k := g.intn(len(m.eps) + 1)
				eps := append([]int{}, m.eps[:k]...)
				eps = append(eps, f)
				m.eps = append(eps, m.eps[k:]...)
			}
		}
	}
	if len(o.mes) < 4 && len(downs) > 0 && g.pct(30) {
		used := map[int]bool{}
		for _, m := range o.mes {
			used[m.name] = true
		}
		n := g.intn(5)
		for used[n] {
			n = (n + 1) % 5
		}
		eps := []int{downs[g.intn(len(downs))]}
		if f := downs[g.intn(len(downs))]; f != eps[0] {
			eps = append(eps, f)
		}
		o.mes = append(o.mes, vgME{name: n, eps: eps, r: vgDurs[g.intn(4)], d: vgDurs[g.intn(4)]})
	}
	keep := false
	for _, m := range o.mes {
		if m.name == prev.def && g.pct(60) {
			keep = true
		}
	}
	if !keep {
		o.def = o.mes[g.intn(len(o.mes))].name
	}
	return o
}

// Online generator of a timed history.  Policy (keeps the history deterministic although Go
// iterates maps in random order and monitors report asynchronously):
//   - connection attempts to endpoints that are down hang (no background state changes);
//   - while a delayed switch is pending or firing, only clock/timer operations are issued (every
//     availability report re-runs maybeUpdateCurrent, which would schedule one more switch timer
//     per report: their number depends on how many state changes a monitor happens to see);
//   - updates never tell a MultiEndpoint anything new in the status-sync loop (vgTimedEdit) and
//     never fail; connectivity changes one endpoint at a time (P lines).
func (r *vgRun) genTimed(g *vgRng, maxOps int) {
	r.begin(true)
	defer r.cleanup()
	nEP := 4 + g.intn(2)
	up := map[int]bool{}
	first := &vgOpts{}
	for _, n := range vgPickDistinct(g, 1+g.intn(3), 5) {
		first.mes = append(first.mes, vgME{name: n - 1, eps: vgPickDistinct(g, 1+g.intn(3), nEP),
			r: vgDurs[g.intn(4)], d: vgDurs[g.intn(4)]})
	}
	if first.mes[0].r == 0 && first.mes[0].d == 0 {
		first.mes[0].r = vgDurs[1+g.intn(3)]
	}
	first.def = first.mes[g.intn(len(first.mes))].name
	if !r.runOp(0, vgOp{kind: "H", opts: first}) {
		return
	}
	prev := first
	n := 4 + g.intn(maxOps)
	for i := 1; i <= n; i++ {
		due, firing, blocked, next := r.timerState()
		vgClk.mu.Lock()
		now := vgClk.now
		vgClk.mu.Unlock()
		var ups, downs []int
		for e := 1; e <= nEP; e++ {
			if up[e] {
				ups = append(ups, e)
			} else {
				downs = append(downs, e)
			}
		}
		toNext := vgOp{kind: "TA", e: 5}
		if next > now {
			toNext = vgOp{kind: "TA", e: int(next - now)}
		}
		var o vgOp
		x := g.intn(100)
		switch {
		case blocked && len(firing) > 0 && (len(due) == 0 || g.pct(60)):
			t := firing[g.intn(len(firing))]
			o = vgOp{kind: "TE", e: t.name, b: t.k}
		case blocked && len(due) > 0:
			t := due[g.intn(len(due))]
			o = vgOp{kind: "TB", e: t.name, b: t.k}
		case blocked:
			o = toNext
		case x < 18 && len(downs) > 1 && len(ups) < 3:
			e := downs[g.intn(len(downs))]
			up[e] = true
			o = vgOp{kind: "SU", e: e}
		case x < 27 && len(ups) > 0:
			e := ups[g.intn(len(ups))]
			delete(up, e)
			o = vgOp{kind: "SD", e: e}
		case x < 42:
			nx := vgTimedEdit(g, prev, up, nEP)
			o = vgOp{kind: "U", opts: nx}
			prev = nx
		case x < 55:
			if g.pct(60) {
				o = toNext
			} else {
				o = vgOp{kind: "TA", e: []int{1, 3, 5, 10}[g.intn(4)]}
			}
		case x < 72 && len(due) > 0:
			t := due[g.intn(len(due))]
			o = vgOp{kind: "TB", e: t.name, b: t.k}
		case x < 88 && len(firing) > 0:
			t := firing[g.intn(len(firing))]
			o = vgOp{kind: "TE", e: t.name, b: t.k}
		case x < 95:
			c := vgProbes[g.intn(len(vgProbes))]
			ready := func() (ok bool) {
				defer func() {
					if recover() != nil {
						ok = false
					}
				}()
				return r.gme.pickConn(vgCtx(c)).GetState() == connectivity.Ready
			}()
			if ready {
				o = vgOp{kind: "X", e: c}
			} else {
				o = toNext
			}
		default:
			o = toNext
		}
		if !r.runOp(i, o) {
			return
		}
	}
	if g.pct(70) {
		r.runOp(n+1, vgOp{kind: "C"})
	}
}

func vgEnvInt(name string, def int) int {
	if v := os.Getenv(name); v != "" {
		if n, err := strconv.Atoi(v); err == nil {
			return n
		}
	}
	return def
}

// vgGuarded runs one history under a watchdog: a library call that never returns (e.g. blocked on a lock that
// an earlier panic left held) must not hang the check for its whole time budget.  The run stops there; the
// trace written so far is flushed and the test fails with the position, which the check reports as a broken
// correspondence.
func vgGuarded(t *testing.T, w *bufio.Writer, what string, f func()) {
	done := make(chan struct{})
	go func() {
		defer close(done)
		f()
	}()
	select {
	case <-done:
	case <-time.After(45 * time.Second):
		buf := make([]byte, 1<<16)
		buf = buf[:runtime.Stack(buf, true)]
		t.Fatalf("harness: a %s did not finish within 45 s: some library call never returned.\n%s", what, buf)
	}
}

func TestVerifGME(t *testing.T) {
	out := os.Getenv("VERIF_OUT")
	if out == "" {
		t.Skip("VERIF_OUT not set")
	}
	grpclog.SetLoggerV2(grpclog.NewLoggerV2(ioutil.Discard, ioutil.Discard, ioutil.Discard))
	vgClk.byPtr = map[uintptr]*vgTimer{}
	defer multiendpoint.VerifInstallClock(vgNow, vgAfter)()
	f, err := os.Create(out)
	if err != nil {
		t.Fatal(err)
	}
	defer f.Close()
	w := bufio.NewWriterSize(f, 1<<20)
	defer w.Flush()
	r := &vgRun{w: w}

	for _, p := range strings.Split(os.Getenv("VERIF_HIST"), ":") {
		if p == "" {
			continue
		}
		paths := []string{p}
		if st, err := os.Stat(p); err == nil && st.IsDir() {
			paths, _ = filepath.Glob(filepath.Join(p, "*.hist"))
			sort.Strings(paths)
		}
		for _, q := range paths {
			hs, err := vgParseHistories(q)
			if err != nil {
				t.Fatal(err)
			}
			for _, h := range hs {
				vgGuarded(t, w, "corpus history", func() { r.runHistory(h) })
			}
		}
	}
	g := &vgRng{s: uint64(vgEnvInt("VERIF_SEED", 1))}
	n := vgEnvInt("VERIF_N", 0)
	maxOps := vgEnvInt("VERIF_MAXOPS", 10)
	live := vgEnvInt("VERIF_LIVE", 20)
	t0 := time.Now()
	nflap := vgEnvInt("VERIF_FLAP", 0)
	for i := 0; i < nflap; i++ {
		vgGuarded(t, w, "flap scenario", func() { r.runHistory(vgGenFlapScenario(g)) })
	}
	ntimed := vgEnvInt("VERIF_TIMED", 0)
	for i := 0; i < ntimed; i++ {
		vgGuarded(t, w, "timed history", func() { r.genTimed(g, vgEnvInt("VERIF_TMAXOPS", 14)) })
	}
	nready := vgEnvInt("VERIF_READY", 0)
	for i := 0; i < nready; i++ {
		vgGuarded(t, w, "ready scenario", func() { r.runHistory(vgGenReadyScenario(g)) })
	}
	nconc := vgEnvInt("VERIF_CONC", 0)
	for i := 0; i < nconc; i++ {
		vgGuarded(t, w, "concurrent-update scenario", func() { r.runHistory(vgGenConcScenario(g)) })
	}
	for i := 0; i < n; i++ {
		vgGuarded(t, w, "random history", func() { r.runHistory(vgGenHistory(g, maxOps, live)) })
	}
	fmt.Fprintf(os.Stderr, "gme harness: %d lines in %v\n", r.nlines, time.Since(t0))
	if vgClk.attrErr > 0 {
		t.Errorf("timer attribution failed for %d timers", vgClk.attrErr)
	}
}
