//go:build verif

// Harness of engine E (Stream), property C12: the interceptors of
// gcp_interceptor.go.  Injected into package grpcgcp with `go test -overlay`.
//
// Stream part: every history of the schedule file (VERIF_HIST) is a schedule
// the extracted Coq model enumerated - one line per step: which goroutine
// (0 = sender, 1 = receiver, W = the context watcher started by the wrapper)
// is released at which yield point.  The overlay copy of gcp_interceptor.go
// calls vsYield(<site>) in front of Lock, Unlock, cond.Wait, cond.Broadcast,
// the streamer call, delegations and <-ctx.Done(); the condition variable's
// Locker is wrapped so that entering the wait set and re-locking after a
// wake-up are visible too.  Each goroutine parks at every yield point and the
// scheduler releases exactly the one the schedule names, then records what it
// did: where it parked next, what it returned, whether it panicked, whether it
// failed to show up within the watchdog, and what reached the fake streamer /
// the fake underlying stream.
//
// Unary part: random calls of GCPUnaryClientInterceptor with a capturing
// invoker; everything is compared by identity.
package grpcgcp

import (
	"bufio"
	"context"
	"errors"
	"fmt"
	"os"
	"path/filepath"
	"runtime"
	"sort"
	"strconv"
	"strings"
	"sync"
	"testing"
	"time"

	"google.golang.org/grpc"
	"google.golang.org/grpc/codes"
	"google.golang.org/grpc/metadata"
	"google.golang.org/grpc/status"
)

// ---------------------------------------------------------------- randomness
type vsRng struct{ s uint64 }

func (r *vsRng) next() uint64 {
	r.s += 0x9e3779b97f4a7c15
	z := r.s
	z = (z ^ (z >> 30)) * 0xbf58476d1ce4e5b9
	z = (z ^ (z >> 27)) * 0x94d049bb133111eb
	return z ^ (z >> 31)
}
func (r *vsRng) intn(n int) int { return int(r.next() % uint64(n)) }

// ---------------------------------------------------------------- goroutine ids
func vsGoid() int64 {
	var buf [64]byte
	n := runtime.Stack(buf[:], false)
	// "goroutine 123 [running]:"
	s := string(buf[:n])
	s = strings.TrimPrefix(s, "goroutine ")
	i := strings.IndexByte(s, ' ')
	if i < 0 {
		return -1
	}
	id, _ := strconv.ParseInt(s[:i], 10, 64)
	return id
}

// ---------------------------------------------------------------- the gate
type vsReport struct {
	tid  int    // 0, 1, 2 (= W)
	kind string // park | inwait | ret | deleg | panic | fin
	site string
	val  string
}

type vsSched struct {
	mu      sync.Mutex
	on      bool
	goids   map[int64]int
	resume  [3]chan struct{}
	reports chan vsReport
	// observations made while a step runs (streamer calls, calls on the fake stream)
	obs []string
	// goroutines the wrapper started (the instrumented copy calls vsSpawn in front of `go`)
	spawned int
	// goroutines of earlier histories that may still be running out: they pass every gate
	retired map[int64]bool
}

var vsS = &vsSched{}

func vsTidName(t int) string {
	if t == 2 {
		return "W"
	}
	return strconv.Itoa(t)
}

func (s *vsSched) tidOf(g int64, register bool) int {
	s.mu.Lock()
	defer s.mu.Unlock()
	if t, ok := s.goids[g]; ok {
		return t
	}
	if s.retired[g] {
		return -1
	}
	if register {
		// an unknown goroutine inside the wrapper: the watcher
		s.goids[g] = 2
		return 2
	}
	return -1
}

func (s *vsSched) addObs(o string) {
	s.mu.Lock()
	s.obs = append(s.obs, o)
	s.mu.Unlock()
}

func (s *vsSched) takeObs() []string {
	s.mu.Lock()
	o := s.obs
	s.obs = nil
	s.mu.Unlock()
	return o
}

// vsYield is called by the instrumented copy of gcp_interceptor.go.
func vsYield(site string) {
	s := vsS
	s.mu.Lock()
	on := s.on
	s.mu.Unlock()
	if !on {
		return
	}
	t := s.tidOf(vsGoid(), true)
	if t < 0 {
		return
	}
	s.mu.Lock()
	reports, resume := s.reports, s.resume[t]
	s.mu.Unlock()
	reports <- vsReport{tid: t, kind: "park", site: site}
	<-resume
}

// vsSpawn is called by the instrumented copy in front of a go statement.
func vsSpawn() {
	vsS.mu.Lock()
	vsS.spawned++
	vsS.mu.Unlock()
}

// vsFin is deferred at the top of the goroutine body the wrapper starts (the
// instrumented copy inserts it): the watcher returned.
func vsFin() {
	s := vsS
	s.mu.Lock()
	on := s.on
	s.mu.Unlock()
	if !on {
		return
	}
	if t := s.tidOf(vsGoid(), false); t >= 0 {
		s.reports <- vsReport{tid: t, kind: "fin"}
	}
}

// vsLocker replaces cond.L: Wait() calls Unlock after joining the wait set and
// Lock after being woken.
type vsLocker struct{ cs *gcpClientStream }

func (l *vsLocker) Lock() {
	vsYield("relock")
	l.cs.Mutex.Lock()
}

func (l *vsLocker) Unlock() {
	l.cs.Mutex.Unlock()
	s := vsS
	s.mu.Lock()
	on := s.on
	s.mu.Unlock()
	if on {
		if t := s.tidOf(vsGoid(), true); t >= 0 {
			s.reports <- vsReport{tid: t, kind: "inwait"}
		}
	}
}

// ---------------------------------------------------------------- fakes
var vsMsgs [16]int // message k is &vsMsgs[k]
var vsBufs [16]int // receive buffer k is &vsBufs[k]

func vsMsgID(m interface{}) string {
	p, ok := m.(*int)
	if !ok {
		return "?"
	}
	for i := range vsMsgs {
		if p == &vsMsgs[i] {
			return strconv.Itoa(i)
		}
	}
	for i := range vsBufs {
		if p == &vsBufs[i] {
			return strconv.Itoa(i)
		}
	}
	return "?"
}

type vsCtxKey struct{ n int }

// what the fake stream last returned to each calling goroutine
type vsLast struct {
	n int // calls made by that goroutine on any fake stream of this history
	e error
	m metadata.MD
	c context.Context
}

type vsFakeStream struct {
	env *vsEnv
}

// logs the call; returns the calling thread and the running number of the call
func (f *vsFakeStream) log(meth, arg string) (int, int) {
	t := vsS.tidOf(vsGoid(), false)
	vsS.addObs(fmt.Sprintf("D:%s:%s:%s", vsTidName(t), meth, arg))
	f.env.mu.Lock()
	f.env.calls++
	n := f.env.calls
	if t >= 0 {
		f.env.last[t].n++
	}
	f.env.mu.Unlock()
	return t, n
}

// results alternate between nil and a fresh sentinel so that "returned unchanged" is checkable
func (f *vsFakeStream) result(t, n int) error {
	var e error
	if n%2 == 0 {
		e = fmt.Errorf("fake result %d", n)
	}
	if t >= 0 {
		f.env.mu.Lock()
		f.env.last[t].e = e
		f.env.mu.Unlock()
	}
	return e
}

func (f *vsFakeStream) SendMsg(m interface{}) error { return f.result(f.log("send", vsMsgID(m))) }
func (f *vsFakeStream) RecvMsg(m interface{}) error { return f.result(f.log("recv", vsMsgID(m))) }
func (f *vsFakeStream) CloseSend() error            { return f.result(f.log("close", "0")) }
func (f *vsFakeStream) Header() (metadata.MD, error) {
	t, n := f.log("header", "0")
	md := metadata.Pairs("fake", strconv.Itoa(n))
	if t >= 0 {
		f.env.mu.Lock()
		f.env.last[t].m = md
		f.env.mu.Unlock()
	}
	return md, f.result(t, n)
}
func (f *vsFakeStream) Trailer() metadata.MD {
	t, n := f.log("trailer", "0")
	md := metadata.Pairs("fake", strconv.Itoa(n))
	if t >= 0 {
		f.env.mu.Lock()
		f.env.last[t].m = md
		f.env.mu.Unlock()
	}
	return md
}
func (f *vsFakeStream) Context() context.Context {
	t, n := f.log("context", "0")
	c := context.WithValue(context.Background(), vsCtxKey{n}, n)
	if t >= 0 {
		f.env.mu.Lock()
		f.env.last[t].c = c
		f.env.mu.Unlock()
	}
	return c
}

// one history's environment
type vsEnv struct {
	mu       sync.Mutex
	base     context.Context
	cancel   context.CancelFunc
	desc     *grpc.StreamDesc
	cc       *grpc.ClientConn
	method   string
	opts     []grpc.CallOption
	oracle   []bool
	attempts int
	errs     []error // error of attempt k (nil when it succeeded)
	calls    int       // calls on the fake streams
	last     [3]vsLast // per calling goroutine
	cs       grpc.ClientStream
}

func (e *vsEnv) streamer(ctx context.Context, desc *grpc.StreamDesc, cc *grpc.ClientConn, method string, opts ...grpc.CallOption) (grpc.ClientStream, error) {
	t := vsS.tidOf(vsGoid(), false)
	e.mu.Lock()
	k := e.attempts
	e.attempts++
	ok := true
	if k < len(e.oracle) {
		ok = e.oracle[k]
	}
	e.mu.Unlock()
	msg := "-"
	if g, has := ctx.Value(gcpKey).(*gcpContext); has && g != nil && g.reqMsg != nil {
		msg = vsMsgID(g.reqMsg)
	}
	// everything else must arrive untouched, and the caller's context values must still be visible
	same := desc == e.desc && cc == e.cc && method == e.method && len(opts) == len(e.opts) &&
		ctx.Value(vsCtxKey{7}) == e.base.Value(vsCtxKey{7})
	for i := range opts {
		if same && opts[i] != e.opts[i] {
			same = false
		}
	}
	if !same {
		vsS.addObs("A!:" + vsTidName(t))
	}
	outcome := "k"
	if !ok {
		outcome = "f"
	}
	vsS.addObs(fmt.Sprintf("C:%s:%s:%d:%s", vsTidName(t), msg, k, outcome))
	e.mu.Lock()
	defer e.mu.Unlock()
	if !ok {
		err := fmt.Errorf("creation error %d", k)
		e.errs = append(e.errs, err)
		return nil, err
	}
	e.errs = append(e.errs, nil)
	return &vsFakeStream{env: e}, nil
}

func (e *vsEnv) errName(err error) string {
	if err == nil {
		return "nil"
	}
	e.mu.Lock()
	defer e.mu.Unlock()
	for k, x := range e.errs {
		if x != nil && x == err {
			return "err" + strconv.Itoa(k)
		}
	}
	if c := status.Code(err); (c == codes.Canceled || c == codes.DeadlineExceeded) && e.base.Err() != nil {
		if _, isStatus := status.FromError(err); isStatus {
			return "ctxerr"
		}
	}
	return "other"
}

// ---------------------------------------------------------------- calls
type vsCall struct {
	kind byte // s r c h t x
	arg  int
}

func vsParseScript(s string) []vsCall {
	if s == "-" || s == "" {
		return nil
	}
	var out []vsCall
	for _, t := range strings.Split(s, ",") {
		c := vsCall{kind: t[0]}
		if len(t) > 1 {
			c.arg, _ = strconv.Atoi(t[1:])
		}
		out = append(out, c)
	}
	return out
}

var vsPromoted = map[string]bool{}

// perform one call on the wrapper; returns (kind, value): ret / deleg / panic
func (e *vsEnv) perform(t int, c vsCall) (kind, val string) {
	defer func() {
		if r := recover(); r != nil {
			kind, val = "panic", fmt.Sprint(r)
		}
	}()
	cs := e.cs
	before := func() int {
		e.mu.Lock()
		defer e.mu.Unlock()
		return e.last[t].n
	}
	n0 := before()
	// did the call reach the fake, and did the wrapper hand back exactly what the fake returned?
	delegated := func(same func(f *vsLast) bool) (string, string) {
		if before() == n0 {
			return "", ""
		}
		e.mu.Lock()
		ok := same(&e.last[t])
		e.mu.Unlock()
		if ok {
			return "deleg", ""
		}
		return "deleg", "changed"
	}
	switch c.kind {
	case 's':
		if vsPromoted["SendMsg"] {
			vsYield("deleg")
		}
		err := cs.SendMsg(&vsMsgs[c.arg])
		if k, v := delegated(func(f *vsLast) bool { return f.e == err }); k != "" {
			return k, v
		}
		return "ret", e.errName(err)
	case 'r':
		if vsPromoted["RecvMsg"] {
			vsYield("deleg")
		}
		err := cs.RecvMsg(&vsBufs[c.arg])
		if k, v := delegated(func(f *vsLast) bool { return f.e == err }); k != "" {
			return k, v
		}
		return "ret", e.errName(err)
	case 'c':
		if vsPromoted["CloseSend"] {
			vsYield("deleg")
		}
		err := cs.CloseSend()
		if k, v := delegated(func(f *vsLast) bool { return f.e == err }); k != "" {
			return k, v
		}
		return "ret", e.errName(err)
	case 'h':
		if vsPromoted["Header"] {
			vsYield("deleg")
		}
		md, err := cs.Header()
		if k, v := delegated(func(f *vsLast) bool {
			return f.e == err && len(md) == 1 && len(f.m) == 1 && md["fake"][0] == f.m["fake"][0]
		}); k != "" {
			return k, v
		}
		if md != nil {
			return "ret", "other"
		}
		return "ret", e.errName(err)
	case 't':
		if vsPromoted["Trailer"] {
			vsYield("deleg")
		}
		md := cs.Trailer()
		if k, v := delegated(func(f *vsLast) bool {
			return len(md) == 1 && len(f.m) == 1 && md["fake"][0] == f.m["fake"][0]
		}); k != "" {
			return k, v
		}
		if md != nil {
			return "ret", "other"
		}
		return "ret", "nil"
	case 'x':
		if vsPromoted["Context"] {
			vsYield("deleg")
		}
		ctx := cs.Context()
		if k, v := delegated(func(f *vsLast) bool { return f.c == ctx }); k != "" {
			return k, v
		}
		if ctx == e.base {
			return "ret", "callctx"
		}
		return "ret", "other"
	}
	return "ret", "other"
}

// ---------------------------------------------------------------- one scheduled history
type vsStatus struct {
	known bool
	kind  string // idle | park | inwait | dead | fin | running
	site  string
}

func (st vsStatus) String() string {
	switch st.kind {
	case "park":
		return "park:" + st.site
	case "":
		return "none"
	}
	return st.kind
}

const vsWatchdog = 1500 * time.Millisecond

type vsRun struct {
	env     *vsEnv
	status  [3]vsStatus
	scripts [2][]vsCall
	next    [2]int
	callGo  [2]chan vsCall
	out     *bufio.Writer
}

func vsNewEnv(oracle []bool, cancellable bool) *vsEnv {
	e := &vsEnv{desc: &grpc.StreamDesc{}, cc: &grpc.ClientConn{}, method: "/verif.Stream/Call", oracle: oracle}
	e.opts = []grpc.CallOption{grpc.MaxCallRecvMsgSize(41), grpc.MaxCallSendMsgSize(42)}
	base := context.WithValue(context.Background(), vsCtxKey{7}, &vsMsgs[0])
	if cancellable {
		e.base, e.cancel = context.WithCancel(base)
	} else {
		e.base, e.cancel = base, func() {}
	}
	return e
}

// thread body: waits for a call, performs it, reports
func (r *vsRun) thread(t int, done *sync.WaitGroup) {
	defer done.Done()
	for c := range r.callGo[t] {
		kind, val := r.env.perform(t, c)
		vsS.reports <- vsReport{tid: t, kind: kind, val: val}
	}
}

// wait for the next report of thread t (reports of other threads update their status)
func (r *vsRun) await(t int, deadline time.Duration) (vsReport, bool) {
	timer := time.NewTimer(deadline)
	defer timer.Stop()
	for {
		select {
		case rep := <-vsS.reports:
			r.note(rep)
			if rep.tid == t {
				return rep, true
			}
		case <-timer.C:
			return vsReport{}, false
		}
	}
}

func (r *vsRun) note(rep vsReport) {
	st := &r.status[rep.tid]
	st.known = true
	switch rep.kind {
	case "park":
		st.kind, st.site = "park", rep.site
	case "inwait":
		st.kind = "inwait"
	case "ret", "deleg":
		st.kind = "idle"
	case "panic":
		st.kind = "dead"
	case "fin":
		st.kind = "fin"
	}
}

func vsRepString(rep vsReport) string {
	switch rep.kind {
	case "park":
		return "park:" + rep.site
	case "ret":
		return "ret:" + rep.val
	case "deleg":
		if rep.val != "" {
			return "deleg:" + rep.val
		}
		return "deleg"
	}
	return rep.kind
}

func (r *vsRun) runHistory(head []string, rows [][]string) []string {
	// head: H S <s> R <r> O <o> C <c>
	var lines []string
	if len(head) != 9 {
		return []string{strings.Join(head, " ") + " ; div bad-header ;"}
	}
	oracle := []bool{}
	if head[6] != "-" {
		for _, ch := range head[6] {
			oracle = append(oracle, ch == 'k')
		}
	}
	env := vsNewEnv(oracle, head[8] == "1")
	r.env = env
	r.scripts[0], r.scripts[1] = vsParseScript(head[2]), vsParseScript(head[4])
	r.next = [2]int{}
	r.status = [3]vsStatus{{known: true, kind: "idle"}, {known: true, kind: "idle"}, {}}

	s := vsS
	s.mu.Lock()
	s.on = true
	if s.retired == nil {
		s.retired = map[int64]bool{}
	}
	for g := range s.goids {
		s.retired[g] = true
	}
	s.goids = map[int64]int{}
	s.obs = nil
	s.spawned = 0
	for i := range s.resume {
		s.resume[i] = make(chan struct{})
	}
	s.reports = make(chan vsReport, 16)
	s.mu.Unlock()

	cs, err := GCPStreamClientInterceptor(env.base, env.desc, env.cc, env.method, env.streamer, env.opts...)
	if err != nil || cs == nil {
		return []string{strings.Join(head, " ") + " ; div constructor ;"}
	}
	env.cs = cs
	if g, ok := cs.(*gcpClientStream); ok && g.cond != nil {
		g.cond.L = &vsLocker{cs: g}
	}
	lines = append(lines, strings.Join(head, " ")+" ; ;")

	var done sync.WaitGroup
	for t := 0; t < 2; t++ {
		r.callGo[t] = make(chan vsCall)
		done.Add(1)
		ready := make(chan struct{})
		go func(t int) {
			s.mu.Lock()
			s.goids[vsGoid()] = t
			s.mu.Unlock()
			close(ready)
			r.thread(t, &done)
		}(t)
		<-ready
	}

	aborted := false
	for _, row := range rows {
		opText := strings.Join(row, " ")
		if aborted {
			lines = append(lines, opText+" ; div aborted ;")
			continue
		}
		var extras []int
		var core []string
		for _, tok := range row {
			if strings.HasPrefix(tok, "+") && len(tok) > 1 {
				if tok[1:] == "W" {
					extras = append(extras, 2)
				} else {
					n, _ := strconv.Atoi(tok[1:])
					extras = append(extras, n)
				}
			} else {
				core = append(core, tok)
			}
		}
		var out []string
		switch {
		case len(core) == 1 && core[0] == "E":
			// let stragglers (a goroutine the schedule did not expect) show up
			for i := 0; i < 3; i++ {
				runtime.Gosched()
				drain := true
				for drain {
					select {
					case rep := <-s.reports:
						r.note(rep)
					default:
						drain = false
					}
				}
			}
			for t := 0; t < 3; t++ {
				out = append(out, vsTidName(t)+":"+r.status[t].String())
			}
		case len(core) == 2 && core[0] == "X":
			env.cancel()
			out = append(out, "ok")
		case len(core) == 3 && core[1] == "call":
			t, _ := strconv.Atoi(core[0])
			if t < 0 || t > 1 || r.status[t].kind != "idle" || r.next[t] >= len(r.scripts[t]) {
				out = append(out, "div", "not-idle:"+r.status[t].String())
				aborted = true
				break
			}
			c := r.scripts[t][r.next[t]]
			r.next[t]++
			r.status[t].kind = "running"
			r.callGo[t] <- c
			rep, ok := r.await(t, vsWatchdog)
			if !ok {
				out = append(out, "timeout")
				aborted = true
			} else {
				out = append(out, vsRepString(rep))
			}
		case len(core) == 2:
			t := 2
			if core[0] != "W" {
				t, _ = strconv.Atoi(core[0])
			}
			st := r.status[t]
			if st.kind != "park" || st.site != core[1] {
				out = append(out, "div", "not-parked-there:"+st.String())
				aborted = true
				break
			}
			r.status[t].kind = "running"
			s.resume[t] <- struct{}{}
			rep, ok := r.await(t, vsWatchdog)
			if !ok {
				// the watcher returning is not reported by the code itself
				out = append(out, "timeout")
				aborted = true
			} else {
				out = append(out, vsRepString(rep))
			}
		default:
			out = append(out, "div", "bad-op")
			aborted = true
		}
		// a goroutine the wrapper started during this step shows up at its first yield point
		s.mu.Lock()
		spawned := s.spawned
		s.mu.Unlock()
		if !aborted && spawned > 0 && !r.status[2].known {
			if _, ok := r.await(2, vsWatchdog); !ok {
				out = append(out, "+W:timeout")
				aborted = true
			}
		}
		if !aborted {
			for _, x := range extras {
				// threads the model expects to park as a consequence (woken waiters, the spawned watcher)
				if r.status[x].kind == "park" && (r.status[x].site == "relock" || r.status[x].site == "await") {
					out = append(out, "+"+vsTidName(x)+":"+r.status[x].String())
					continue
				}
				rep, ok := r.await(x, vsWatchdog)
				if !ok {
					out = append(out, "+"+vsTidName(x)+":timeout")
					aborted = true
				} else {
					out = append(out, "+"+vsTidName(x)+":"+vsRepString(rep))
				}
			}
		}
		lines = append(lines, opText+" ; "+strings.Join(out, " ")+" ; "+strings.Join(s.takeObs(), " "))
	}

	// tear down: open the gate, end the context, let everything run out
	s.mu.Lock()
	s.on = false
	s.mu.Unlock()
	env.cancel()
	for t := 0; t < 3; t++ {
		if r.status[t].kind == "park" {
			select {
			case s.resume[t] <- struct{}{}:
			case <-time.After(200 * time.Millisecond):
			}
		}
	}
	if g, ok := cs.(*gcpClientStream); ok && g.cond != nil {
		// whoever is still in the wait set (a receiver the unpatched code never wakes) must not outlive the history
		// (TryLock: a call that returned with the mutex held has left it locked for good)
		if g.Mutex.TryLock() {
			if g.ClientStream == nil && g.initStreamErr == nil {
				g.initStreamErr = errors.New("harness teardown")
			}
			g.Mutex.Unlock()
		}
		for i := 0; i < 3; i++ {
			g.cond.Broadcast()
			runtime.Gosched()
		}
	}
	close(r.callGo[0])
	close(r.callGo[1])
	// drain late reports so that nobody blocks on the channel
	fin := make(chan struct{})
	go func() { done.Wait(); close(fin) }()
	for waiting := true; waiting; {
		select {
		case <-s.reports:
		case <-fin:
			waiting = false
		case <-time.After(300 * time.Millisecond):
			// a goroutine that can never return (stuck in Wait with no stream): leave it behind
			if g, ok := cs.(*gcpClientStream); ok && g.cond != nil {
				g.cond.Broadcast()
			}
			waiting = false
		}
	}
	return lines
}

// ---------------------------------------------------------------- free-running (unscheduled) mode
// Used when the yield patterns no longer match the source (VERIF_NOGATE): the
// two goroutines run their scripts without any control; only the event order
// the harness happens to observe is recorded.
func (r *vsRun) runFree(head []string, rng *vsRng) []string {
	if len(head) != 9 {
		return []string{strings.Join(head, " ") + " ; div bad-header ;"}
	}
	oracle := []bool{}
	if head[6] != "-" {
		for _, ch := range head[6] {
			oracle = append(oracle, ch == 'k')
		}
	}
	env := vsNewEnv(oracle, head[8] == "1")
	r.env = env
	s := vsS
	s.mu.Lock()
	s.on = false
	if s.retired == nil {
		s.retired = map[int64]bool{}
	}
	for g := range s.goids {
		s.retired[g] = true
	}
	s.goids = map[int64]int{}
	s.obs = nil
	s.mu.Unlock()
	cs, _ := GCPStreamClientInterceptor(env.base, env.desc, env.cc, env.method, env.streamer, env.opts...)
	env.cs = cs
	scripts := [2][]vsCall{vsParseScript(head[2]), vsParseScript(head[4])}
	var evmu sync.Mutex
	var rows []string
	// rows are appended in real time: a call's start, its end, the cancellation; what reached the fakes since
	// the previous row goes into the row's third field (so it is ordered before the row's own event)
	emit := func(op, out string) {
		evmu.Lock()
		rows = append(rows, op+" ; "+out+" ; "+strings.Join(s.takeObs(), " "))
		evmu.Unlock()
	}
	var wg sync.WaitGroup
	state := [2]string{"idle", "idle"}
	var stmu sync.Mutex
	for t := 0; t < 2; t++ {
		wg.Add(1)
		ready := make(chan struct{})
		go func(t int) {
			defer wg.Done()
			s.mu.Lock()
			s.goids[vsGoid()] = t
			s.mu.Unlock()
			close(ready)
			for _, c := range scripts[t] {
				tok := string(c.kind)
				if c.kind == 's' || c.kind == 'r' {
					tok += strconv.Itoa(c.arg)
				}
				for i := rng.intn(4); i > 0; i-- {
					runtime.Gosched()
				}
				stmu.Lock()
				state[t] = "inwait"
				stmu.Unlock()
				emit(fmt.Sprintf("%d begin %s", t, tok), "")
				kind, val := env.perform(t, c)
				rep := vsRepString(vsReport{kind: kind, val: val})
				emit(fmt.Sprintf("%d end", t), rep)
				stmu.Lock()
				state[t] = "idle"
				if kind == "panic" {
					state[t] = "dead"
				}
				stmu.Unlock()
				if kind == "panic" {
					return
				}
			}
		}(t)
		<-ready
	}
	cancelled := false
	if head[8] == "1" && rng.intn(2) == 0 {
		time.Sleep(time.Duration(rng.intn(300)) * time.Microsecond)
		env.cancel()
		cancelled = true
		emit("X cancel", "ok")
	}
	fin := make(chan struct{})
	go func() { wg.Wait(); close(fin) }()
	select {
	case <-fin:
	case <-time.After(vsWatchdog / 3):
	}
	stmu.Lock()
	final := fmt.Sprintf("0:%s 1:%s W:none", state[0], state[1])
	stmu.Unlock()
	evmu.Lock()
	out := []string{strings.Join(head, " ") + " ; ;"}
	// calls are logged when they return: put the cancellation first if it happened (conservative for the monitor)
	_ = cancelled
	out = append(out, rows...)
	out = append(out, "E ; "+final+" ;")
	evmu.Unlock()
	env.cancel()
	if g, ok := cs.(*gcpClientStream); ok && g.cond != nil {
		// (TryLock: a call that returned with the mutex held has left it locked for good)
		if g.Mutex.TryLock() {
			if g.ClientStream == nil && g.initStreamErr == nil {
				g.initStreamErr = errors.New("harness teardown")
			}
			g.Mutex.Unlock()
		}
		g.cond.Broadcast()
	}
	return out
}

// ---------------------------------------------------------------- unary
type vsK1 string
type vsK2 int
type vsK3 struct{ a, b int }

var vsObjs [64]int
var vsCCs = [4]*grpc.ClientConn{{}, {}, {}, {}}
var vsErrs = [4]error{nil, errors.New("e1"), errors.New("e2"), status.Error(codes.Unavailable, "e3")}
var vsPtrKeys [4]int

func vsUserKey(n int) interface{} {
	switch n % 5 {
	case 0:
		return vsK1("k" + strconv.Itoa(n))
	case 1:
		return vsK2(n)
	case 2:
		return vsK3{n, -n}
	case 3:
		return &vsPtrKeys[(n/5)%4]
	}
	return "plain" + strconv.Itoa(n) // a built-in string key (bad style, still legal)
}

func vsObjID(v interface{}) int {
	p, ok := v.(*int)
	if !ok {
		return -1
	}
	for i := range vsObjs {
		if p == &vsObjs[i] {
			return i
		}
	}
	return -1
}

func vsOptID(o grpc.CallOption) int {
	if m, ok := o.(grpc.MaxRecvMsgSizeCallOption); ok {
		return m.MaxRecvMsgSize
	}
	return -1
}

func vsJoinInts(l []int) string {
	if len(l) == 0 {
		return "-"
	}
	s := make([]string, len(l))
	for i, x := range l {
		s[i] = strconv.Itoa(x)
	}
	return strings.Join(s, ",")
}

// one unary case; the input line is `H U m= q= p= c= e= o= x=k:v,...`
func vsUnaryCase(fields map[string]string) string {
	atoi := func(k string) int { n, _ := strconv.Atoi(fields[k]); return n }
	ctx := context.Background()
	var keys []int
	if fields["x"] != "-" && fields["x"] != "" {
		bs := strings.Split(fields["x"], ",")
		// innermost binding first in the model: wrap from the last to the first
		for i := len(bs) - 1; i >= 0; i-- {
			kvp := strings.Split(bs[i], ":")
			if kvp[0] == "G" {
				// the caller's context already carries a gcpContext (another call's: a context derived
				// from a stream's Context(), a doubly installed interceptor): G:g<req>_<reply>
				ab := strings.Split(kvp[1][1:], "_")
				a, _ := strconv.Atoi(ab[0])
				b, _ := strconv.Atoi(ab[1])
				ctx = context.WithValue(ctx, gcpKey, &gcpContext{reqMsg: &vsObjs[a], replyMsg: &vsObjs[b]})
				continue
			}
			k, _ := strconv.Atoi(kvp[0])
			v, _ := strconv.Atoi(kvp[1][1:])
			ctx = context.WithValue(ctx, vsUserKey(k), &vsObjs[v])
		}
		for _, b := range bs {
			if strings.HasPrefix(b, "G:") {
				continue
			}
			k, _ := strconv.Atoi(strings.Split(b, ":")[0])
			keys = append(keys, k)
		}
	}
	// k=1: the caller's context is already cancelled, k=2: its deadline has already passed -- the interceptor
	// is transparent all the same (it is the invoker's business to fail the call)
	switch fields["k"] {
	case "1":
		c2, cancel := context.WithCancel(ctx)
		cancel()
		ctx = c2
	case "2":
		c2, cancel := context.WithDeadline(ctx, time.Now().Add(-time.Hour))
		defer cancel()
		ctx = c2
	}
	var opts []grpc.CallOption
	if fields["o"] != "-" && fields["o"] != "" {
		for _, t := range strings.Split(fields["o"], ",") {
			n, _ := strconv.Atoi(t)
			opts = append(opts, grpc.MaxCallRecvMsgSize(n))
		}
	}
	method := "/m/" + fields["m"]
	req, reply := &vsObjs[atoi("q")], &vsObjs[atoi("p")]
	cc := vsCCs[atoi("c")%4]
	wantErr := vsErrs[atoi("e")%4]
	calls := 0
	var gm string
	var gq, gp interface{}
	var gcc *grpc.ClientConn
	var gopts []grpc.CallOption
	var gctx context.Context
	inv := func(ctx context.Context, method string, req, reply interface{}, cc *grpc.ClientConn, opts ...grpc.CallOption) error {
		calls++
		gctx, gm, gq, gp, gcc, gopts = ctx, method, req, reply, cc, opts
		return wantErr
	}
	var ret error
	panicked := false
	func() {
		defer func() {
			if r := recover(); r != nil {
				panicked = true
			}
		}()
		ret = GCPUnaryClientInterceptor(ctx, method, req, reply, cc, inv, opts...)
	}()
	if panicked || calls == 0 {
		return fmt.Sprintf("n=%d m=0 q=0 p=0 c=0 o=- r=0 v=-", calls)
	}
	mid := -1
	if strings.HasPrefix(gm, "/m/") {
		mid, _ = strconv.Atoi(gm[3:])
	}
	ccid := -1
	for i, c := range vsCCs {
		if c == gcc {
			ccid = i
		}
	}
	rid := -1
	for i, e := range vsErrs {
		if e == ret {
			rid = i
		}
	}
	var oids []int
	for _, o := range gopts {
		oids = append(oids, vsOptID(o))
	}
	// probe: gcpKey, every key the caller bound, and two it did not
	var vals []string
	g, has := gctx.Value(gcpKey).(*gcpContext)
	if has && g != nil {
		vals = append(vals, fmt.Sprintf("G:g%d_%d", vsObjID(g.reqMsg), vsObjID(g.replyMsg)))
	} else {
		vals = append(vals, "G:none")
	}
	probe := append(append([]int{}, keys...), 1000, 1001)
	sort.Ints(probe)
	last := -1
	for _, k := range probe {
		if k == last {
			continue
		}
		last = k
		v := gctx.Value(vsUserKey(k))
		if v == nil {
			vals = append(vals, fmt.Sprintf("%d:none", k))
		} else {
			vals = append(vals, fmt.Sprintf("%d:v%d", k, vsObjID(v)))
		}
	}
	return fmt.Sprintf("n=%d m=%d q=%d p=%d c=%d o=%s r=%d v=%s", calls, mid, vsObjID(gq), vsObjID(gp), ccid,
		vsJoinInts(oids), rid, strings.Join(vals, ","))
}

func vsRandomUnary(rng *vsRng) string {
	var bs []string
	nb := rng.intn(5)
	for i := 0; i < nb; i++ {
		bs = append(bs, fmt.Sprintf("%d:v%d", rng.intn(12), rng.intn(60)))
	}
	if rng.intn(3) == 0 {
		at := rng.intn(len(bs) + 1)
		g := fmt.Sprintf("G:g%d_%d", rng.intn(60), rng.intn(60))
		bs = append(bs[:at], append([]string{g}, bs[at:]...)...)
	}
	x := "-"
	if len(bs) > 0 {
		x = strings.Join(bs, ",")
	}
	var os_ []int
	no := rng.intn(4)
	for i := 0; i < no; i++ {
		os_ = append(os_, rng.intn(50))
	}
	k := 0
	if rng.intn(5) == 0 {
		k = 1 + rng.intn(2)
	}
	return fmt.Sprintf("H U m=%d q=%d p=%d c=%d e=%d o=%s x=%s k=%d", rng.intn(9), rng.intn(60), rng.intn(60), rng.intn(4),
		rng.intn(4), vsJoinInts(os_), x, k)
}

// ---------------------------------------------------------------- driver
// vsEachHistory streams the histories of the colon-separated files/directories
// (only the part of each line before the first ';' is read).
func vsEachHistory(paths string, f func(h [][]string)) {
	var files []string
	for _, p := range strings.Split(paths, ":") {
		if p == "" {
			continue
		}
		if fi, err := os.Stat(p); err == nil && fi.IsDir() {
			m, _ := filepath.Glob(filepath.Join(p, "*.hist"))
			sort.Strings(m)
			files = append(files, m...)
		} else if err == nil {
			files = append(files, p)
		}
	}
	for _, file := range files {
		fh, err := os.Open(file)
		if err != nil {
			continue
		}
		var cur [][]string
		sc := bufio.NewScanner(fh)
		sc.Buffer(make([]byte, 1<<20), 1<<20)
		for sc.Scan() {
			line := sc.Text()
			if line == "" || line[0] == '#' {
				continue
			}
			if i := strings.IndexByte(line, ';'); i >= 0 {
				line = line[:i]
			}
			toks := strings.Fields(line)
			if len(toks) == 0 {
				continue
			}
			if toks[0] == "H" {
				if cur != nil {
					f(cur)
				}
				cur = [][]string{toks}
			} else if cur != nil {
				cur = append(cur, toks)
			}
		}
		if cur != nil {
			f(cur)
		}
		fh.Close()
	}
}

func TestVerifStream(t *testing.T) {
	outPath := os.Getenv("VERIF_OUT")
	if outPath == "" {
		t.Skip("VERIF_OUT not set")
	}
	seed, _ := strconv.ParseUint(os.Getenv("VERIF_SEED"), 10, 64)
	rng := &vsRng{s: seed*0x9e3779b97f4a7c15 + 12345}
	nUnary, _ := strconv.Atoi(os.Getenv("VERIF_N"))
	nogate := os.Getenv("VERIF_NOGATE") != ""
	for _, m := range strings.Split(os.Getenv("VERIF_STREAM_PROMOTED"), ",") {
		if m != "" {
			vsPromoted[m] = true
		}
	}
	f, err := os.Create(outPath)
	if err != nil {
		t.Fatal(err)
	}
	defer f.Close()
	w := bufio.NewWriter(f)
	defer w.Flush()

	r := &vsRun{out: w}
	vsEachHistory(os.Getenv("VERIF_HIST"), func(h [][]string) {
		head := h[0]
		if len(head) >= 2 && head[1] == "U" {
			fields := map[string]string{}
			for _, kvp := range head[2:] {
				if i := strings.IndexByte(kvp, '='); i > 0 {
					fields[kvp[:i]] = kvp[i+1:]
				}
			}
			fmt.Fprintf(w, "%s ; %s ;\n", strings.Join(head, " "), vsUnaryCase(fields))
			return
		}
		var lines []string
		if nogate {
			lines = r.runFree(head, rng)
		} else {
			lines = r.runHistory(head, h[1:])
		}
		for _, l := range lines {
			fmt.Fprintln(w, l)
		}
	})
	for i := 0; i < nUnary; i++ {
		line := vsRandomUnary(rng)
		head := strings.Fields(line)
		fields := map[string]string{}
		for _, kvp := range head[2:] {
			if j := strings.IndexByte(kvp, '='); j > 0 {
				fields[kvp[:j]] = kvp[j+1:]
			}
		}
		fmt.Fprintf(w, "%s ; %s ;\n", line, vsUnaryCase(fields))
	}
}
