//go:build verif

// Harness for property C18, package spanner_prober/prober. Injected with
// `go test -tags verif -overlay`; nothing in /repo is changed. It calls the
// real backoff, parseT4T7Latency, URI builders, probeInterval, ParseProbeType
// and generatePayload on corpus, boundary-biased and seeded random inputs and
// writes one line per case:  H <kind> <inputs> ; <outputs> ;
//
// Byte strings are printed as "x"+hex. int64 results are printed in decimal,
// bit-exact. Every call is wrapped in recover(); a panic is printed as "panic".
//
// Lines of the file named by VERIF_DERIVED ("G p i d c qpsbits probetype") are
// flag sets that the real validateFlags of package main accepted (written by
// tools/eng_prober.py from the trace of harness/prober_main). For those the
// harness does what main() goes on to do with the flags; see runG.
package prober

import (
	"bufio"
	"crypto/sha256"
	"encoding/hex"
	"fmt"
	"math"
	"os"
	"path/filepath"
	"sort"
	"strconv"
	"strings"
	"testing"
	"time"

	"google.golang.org/grpc/metadata"
)

// ---------------------------------------------------------------- PRNG
type rng struct{ s uint64 }

func (r *rng) next() uint64 {
	r.s += 0x9E3779B97F4A7C15
	z := r.s
	z = (z ^ (z >> 30)) * 0xBF58476D1CE4E5B9
	z = (z ^ (z >> 27)) * 0x94D049BB133111EB
	return z ^ (z >> 31)
}
func (r *rng) intn(n int) int        { return int(r.next() % uint64(n)) }
func (r *rng) pick(xs []int64) int64 { return xs[r.intn(len(xs))] }
func (r *rng) pickS(xs []string) string {
	return xs[r.intn(len(xs))]
}

// uniform in [lo, hi] (hi >= lo, both int64, hi-lo < 2^63)
func (r *rng) between(lo, hi int64) int64 {
	span := uint64(hi-lo) + 1
	if span == 0 {
		return int64(r.next())
	}
	return lo + int64(r.next()%span)
}

func hx(s string) string { return "x" + hex.EncodeToString([]byte(s)) }
func unhx(t string) (string, error) {
	if len(t) == 0 || t[0] != 'x' {
		return "", fmt.Errorf("bad string token %q", t)
	}
	b, err := hex.DecodeString(t[1:])
	return string(b), err
}

var dist = map[string]int{}

// ---------------------------------------------------------------- cases
// Before the fix of B1 the loop ran `retries` times on a non-positive base. The
// harness still never runs such a call with more retries than this, so that a
// tree without that fix cannot hang it.
const maxSlowRetries = 5000

func callBackoff(base, max int64, retries int) (out string) {
	defer func() {
		if e := recover(); e != nil {
			out = "panic"
		}
	}()
	return strconv.FormatInt(int64(backoff(time.Duration(base), time.Duration(max), retries)), 10)
}

func runB(w *bufio.Writer, base, max int64, retries int) {
	if base <= 0 && base < max && retries > maxSlowRetries {
		fmt.Fprintf(w, "H B %d %d %d ; skip ;\n", base, max, retries)
		dist["B.skipped"]++
		return
	}
	o1 := callBackoff(base, max, retries)
	o2 := callBackoff(base, max, retries+1) // wraps to MinInt64 at MaxInt64 like any Go int
	fmt.Fprintf(w, "H B %d %d %d ; %s %s ;\n", base, max, retries, o1, o2)
}

type mdEntry struct {
	k string
	v []string
}

func mdTokens(m []mdEntry) string {
	var sb strings.Builder
	fmt.Fprintf(&sb, "%d", len(m))
	for _, e := range m {
		fmt.Fprintf(&sb, " %s %d", hx(e.k), len(e.v))
		for _, v := range e.v {
			sb.WriteString(" " + hx(v))
		}
	}
	return sb.String()
}

func toMD(m []mdEntry) metadata.MD {
	if m == nil {
		return nil
	}
	out := metadata.MD{}
	for _, e := range m {
		out[e.k] = e.v
	}
	return out
}

func callLatency(h, t metadata.MD) (out string) {
	defer func() {
		if e := recover(); e != nil {
			out = "panic"
		}
	}()
	d, err := parseT4T7Latency(h, t)
	if err == nil {
		return "ok " + strconv.FormatInt(int64(d), 10)
	}
	if d != 0 {
		return "eo" // an error together with a non-zero duration: not what the code can do
	}
	msg := err.Error()
	switch {
	case msg == "server-timing headers not found":
		return "nf"
	case msg == "no gfe latency response available":
		return "ne"
	case strings.HasPrefix(msg, "failed to parse gfe latency: ") && strings.HasSuffix(msg, "invalid syntax"):
		return "es"
	case strings.HasPrefix(msg, "failed to parse gfe latency: ") && strings.HasSuffix(msg, "value out of range"):
		return "er"
	case strings.HasPrefix(msg, "failed to parse gfe latency: ") && strings.HasSuffix(msg, "ms is out of range"):
		return "ed" // the millisecond count is an int64 but not a time.Duration (fix of B2)
	}
	return "eo"
}

// dedupe keys (a Go map has one entry per key): the last one wins, and the
// printed association list has unique keys
func uniq(m []mdEntry) []mdEntry {
	seen := map[string]int{}
	var out []mdEntry
	for _, e := range m {
		if i, ok := seen[e.k]; ok {
			out[i] = e
			continue
		}
		seen[e.k] = len(out)
		out = append(out, e)
	}
	return out
}

func runL(w *bufio.Writer, h, t []mdEntry) {
	h, t = uniq(h), uniq(t)
	fmt.Fprintf(w, "H L %s %s ; %s ;\n", mdTokens(h), mdTokens(t), callLatency(toMD(h), toMD(t)))
}

func callURIs(p, i, d, c string) (out string) {
	defer func() {
		if e := recover(); e != nil {
			out = "panic"
		}
	}()
	opt := &ProberOptions{Project: p, Instance: i, Database: d, InstanceConfig: c}
	return strings.Join([]string{hx(opt.projectURI()), hx(opt.instanceURI()), hx(opt.instanceConfigURI()),
		hx(opt.databaseURI()), hx(opt.instanceName()), hx(opt.databaseName())}, " ")
}

func runU(w *bufio.Writer, p, i, d, c string) {
	fmt.Fprintf(w, "H U %s %s %s %s ; %s ;\n", hx(p), hx(i), hx(d), hx(c), callURIs(p, i, d, c))
}

func callInterval(qps float64) (out string) {
	defer func() {
		if e := recover(); e != nil {
			out = "panic"
		}
	}()
	// newSpannerProber (proberlib.go:428) stores opt.QPS in the qps field
	p := &Prober{qps: qps}
	return strconv.FormatInt(int64(p.probeInterval()), 10)
}

func runI(w *bufio.Writer, bits uint64) {
	fmt.Fprintf(w, "H I %d ; %s ;\n", bits, callInterval(math.Float64frombits(bits)))
}

func callProbeType(t string) (out string) {
	defer func() {
		if e := recover(); e != nil {
			out = "panic"
		}
	}()
	p, err := ParseProbeType(t)
	if err != nil {
		return "err"
	}
	return "ok " + hx(p.name())
}

func runT(w *bufio.Writer, t string) {
	fmt.Fprintf(w, "H T %s ; %s ;\n", hx(t), callProbeType(t))
}

func callPayload(size int) (out string) {
	defer func() {
		if e := recover(); e != nil {
			out = "panic"
		}
	}()
	payload, hash, err := generatePayload(size)
	if err != nil {
		return "err"
	}
	oracle := sha256.Sum256(payload) // independent digest of what was returned
	return hx(string(payload)) + " " + hx(string(hash)) + " " + hx(string(oracle[:]))
}

func runP(w *bufio.Writer, size int) {
	fmt.Fprintf(w, "H P %d ; %s ;\n", size, callPayload(size))
}

func runK(w *bufio.Writer) {
	fmt.Fprintf(w, "H K ; %s %s %d %d ;\n", hx(serverTimingKey), hx(gfeT4T7prefix),
		int64(baseLRORetryDelay), int64(maxLRORetryDelay))
}

// runG: what main() does after validateFlags() returned no error, as far as
// the property is concerned. main() is not callable (it dials Spanner), so the
// relevant statements are replicated here:
//
//	main.go:113      prober, err := proberlib.ParseProbeType(*probeType)
//	main.go:118-134  opts := proberlib.ProberOptions{Project: *project, Instance: *instance_name,
//	                 Database: *database_name, InstanceConfig: *instanceConfig, QPS: *qps, ...}
//	proberlib.go:428 p := &Prober{qps: opt.QPS, ...}            (newSpannerProber)
//	proberlib.go:566 time.NewTicker(p.probeInterval())          (Start)
//	proberlib.go:412,463-468,488,519  opt.databaseURI(), projectURI(), instanceURI(), ...
func callG(p, i, d, c string, qps float64, pt string) (out string) {
	defer func() {
		if e := recover(); e != nil {
			out = "panic"
		}
	}()
	prober, err := ParseProbeType(pt)
	opts := ProberOptions{Project: p, Instance: i, Database: d, InstanceConfig: c, QPS: qps, Prober: prober}
	pr := &Prober{qps: opts.QPS, opt: opts}
	uris := strings.Join([]string{hx(opts.projectURI()), hx(opts.instanceURI()), hx(opts.instanceConfigURI()),
		hx(opts.databaseURI()), hx(opts.instanceName()), hx(opts.databaseName())}, " ")
	pts := "err"
	if err == nil {
		pts = "ok " + hx(prober.name())
	}
	return uris + " " + strconv.FormatInt(int64(pr.probeInterval()), 10) + " " + pts
}

// ---------------------------------------------------------------- replay of hist lines
func parseMD(tok []string, pos *int) ([]mdEntry, error) {
	if *pos >= len(tok) {
		return nil, fmt.Errorf("md: short")
	}
	n, err := strconv.Atoi(tok[*pos])
	*pos++
	if err != nil {
		return nil, err
	}
	var out []mdEntry
	for k := 0; k < n; k++ {
		if *pos+1 >= len(tok) {
			return nil, fmt.Errorf("md: short")
		}
		key, err := unhx(tok[*pos])
		if err != nil {
			return nil, err
		}
		nv, err := strconv.Atoi(tok[*pos+1])
		if err != nil {
			return nil, err
		}
		*pos += 2
		vals := []string{}
		for j := 0; j < nv; j++ {
			if *pos >= len(tok) {
				return nil, fmt.Errorf("md: short")
			}
			v, err := unhx(tok[*pos])
			if err != nil {
				return nil, err
			}
			*pos++
			vals = append(vals, v)
		}
		out = append(out, mdEntry{key, vals})
	}
	return out, nil
}

func unhxAll(tok []string) ([]string, error) {
	out := make([]string, len(tok))
	for i, t := range tok {
		s, err := unhx(t)
		if err != nil {
			return nil, err
		}
		out[i] = s
	}
	return out, nil
}

func runHistLine(w *bufio.Writer, line string) error {
	if i := strings.Index(line, ";"); i >= 0 {
		line = line[:i]
	}
	tok := strings.Fields(line)
	if len(tok) < 2 || tok[0] != "H" {
		return nil // event lines (G ...) and comments are not cases of this package
	}
	args := tok[2:]
	switch tok[1] {
	case "B":
		if len(args) != 3 {
			return fmt.Errorf("B: want 3 args")
		}
		b, e1 := strconv.ParseInt(args[0], 10, 64)
		m, e2 := strconv.ParseInt(args[1], 10, 64)
		r, e3 := strconv.ParseInt(args[2], 10, 64)
		if e1 != nil || e2 != nil || e3 != nil {
			return fmt.Errorf("B: bad ints")
		}
		runB(w, b, m, int(r))
	case "L":
		pos := 0
		h, err := parseMD(args, &pos)
		if err != nil {
			return err
		}
		t, err := parseMD(args, &pos)
		if err != nil {
			return err
		}
		runL(w, h, t)
	case "U":
		s, err := unhxAll(args)
		if err != nil || len(s) != 4 {
			return fmt.Errorf("U: want 4 strings")
		}
		runU(w, s[0], s[1], s[2], s[3])
	case "I":
		if len(args) != 1 {
			return fmt.Errorf("I: want 1 arg")
		}
		b, err := strconv.ParseUint(args[0], 10, 64)
		if err != nil {
			return err
		}
		runI(w, b)
	case "T":
		s, err := unhxAll(args)
		if err != nil || len(s) != 1 {
			return fmt.Errorf("T: want 1 string")
		}
		runT(w, s[0])
	case "P":
		if len(args) != 1 {
			return fmt.Errorf("P: want 1 arg")
		}
		n, err := strconv.ParseInt(args[0], 10, 64)
		if err != nil {
			return err
		}
		runP(w, int(n))
	case "K":
		runK(w)
	case "F":
		// a case of package main; not run here
	default:
		return fmt.Errorf("unknown case kind %q", tok[1])
	}
	dist["hist."+tok[1]]++
	return nil
}

func histFiles(spec string) []string {
	var files []string
	for _, p := range strings.Split(spec, ":") {
		if p == "" {
			continue
		}
		st, err := os.Stat(p)
		if err != nil {
			continue
		}
		if st.IsDir() {
			m, _ := filepath.Glob(filepath.Join(p, "*.hist"))
			sort.Strings(m)
			files = append(files, m...)
		} else {
			files = append(files, p)
		}
	}
	return files
}

// ---------------------------------------------------------------- generators
const two53 = int64(1) << 53

var (
	ms  = int64(time.Millisecond)
	sec = int64(time.Second)
)

func genB(g *rng, w *bufio.Writer) {
	var base, max int64
	var retries int
	c := g.intn(100)
	switch {
	case c < 15: // the call site: backoff(baseLRORetryDelay, maxLRORetryDelay, retries), retries = 0,1,2,...
		dist["B.callsite"]++
		base, max, retries = int64(baseLRORetryDelay), int64(maxLRORetryDelay), g.intn(40)
	case c < 70: // inside the theorem's guard 0 <= base <= max <= 2^53
		dist["B.guard"]++
		switch g.intn(5) {
		case 0:
			base = g.pick([]int64{0, 1, 2, 3, 7, 1000, ms, 200 * ms, sec})
		case 1:
			base = g.between(0, 1000)
		case 2:
			base = g.between(0, two53)
		case 3:
			base = two53 - g.between(0, 3)
		default:
			base = g.between(0, 100*sec)
		}
		switch g.intn(6) {
		case 0:
			max = base
		case 1:
			max = base + g.between(0, 3)
		case 2:
			max = two53
		case 3:
			max = g.between(base, two53)
		case 4:
			max = base + g.between(0, base/2+2)
		default:
			max = base*int64(1+g.intn(200)) + g.between(0, 10)
		}
		if max > two53 || max < base {
			max = two53
		}
		retries = genRetries(g, base)
	default: // outside the guard: beyond 2^53, negative, base > max
		dist["B.outside"]++
		ext := []int64{two53 + 1, two53 + 2, two53 + 3, 1 << 54, 1<<62 + 1, math.MaxInt64, math.MaxInt64 - 1,
			math.MaxInt64 - 512, -1, -2, -3, -1000, math.MinInt64, math.MinInt64 + 1, 0, 1, 5, two53, two53 - 1}
		base = g.pick(ext)
		max = g.pick(ext)
		switch g.intn(6) {
		case 0:
			max = base
		case 1:
			base = int64(g.next())
			max = int64(g.next())
		case 2:
			base = g.between(two53, math.MaxInt64)
			max = g.between(base, math.MaxInt64)
		case 3:
			base = -g.between(1, 1000)
			max = g.between(0, 1000)
		}
		retries = genRetries(g, base)
	}
	runB(w, base, max, retries)
}

func genRetries(g *rng, base int64) int {
	c := g.intn(100)
	switch {
	case c < 5:
		return -g.intn(5) - 1
	case c < 8:
		return math.MinInt64
	case c < 40:
		return g.intn(6)
	case c < 80:
		return g.intn(130)
	case c < 90:
		if base <= 0 {
			return g.intn(maxSlowRetries)
		}
		return 130 + g.intn(4000)
	default:
		if base <= 0 {
			return g.intn(maxSlowRetries)
		}
		return int(g.pick([]int64{1 << 31, 1<<31 - 1, 1 << 32, 1 << 62, math.MaxInt64 - 1, math.MaxInt64}))
	}
}

var gfeNumbers = []string{"0", "1", "5", "12", "250", "007", "+5", "-5", "-0", "+0", "1000", "86400000",
	"9223372036854", "9223372036855", "-9223372036854", "-9223372036855", "9999999999999999",
	"9223372036854775807", "9223372036854775808", "-9223372036854775808", "-9223372036854775809",
	"18446744073709551615", "18446744073709551616", "99999999999999999999", "99999999999999999999x",
	"", "+", "-", "++1", "1_000", "12a", "a12", " 12", "12 ", "0x10", "1e3", "1.5", "٣", "１２", "12\x00", "ff", "10"}

var nonGfe = []string{"", "gfet4t7", "gfet4t7; dur", "gfet4t7;dur=5", "GFET4T7; dur=5", "cfet4t7; dur=8", " gfet4t7; dur=5",
	"gfet4t7;  dur=5", "123", "dur=7", "gfet4t8; dur=5", "cache;desc=\"hit\"", "gfet4t7; du=5"}

func genNumber(g *rng) string {
	c := g.intn(100)
	switch {
	case c < 45:
		return gfeNumbers[g.intn(len(gfeNumbers))]
	case c < 75:
		return strconv.FormatInt(g.between(-100000, 10000000), 10)
	case c < 85:
		return strconv.FormatInt(int64(g.next()), 10)
	case c < 92: // around the multiplication overflow
		return strconv.FormatInt(9223372036854+g.between(-3, 3), 10)
	default:
		n := 1 + g.intn(24)
		b := make([]byte, n)
		for i := range b {
			b[i] = byte('0' + g.intn(10))
		}
		if g.intn(4) == 0 {
			b[g.intn(n)] = "_-+ax "[g.intn(6)]
		}
		return string(b)
	}
}

func genEntries(g *rng) []string {
	n := g.intn(4)
	if g.intn(3) == 0 {
		n = 1
	}
	out := []string{}
	for i := 0; i < n; i++ {
		if g.intn(3) == 0 {
			out = append(out, nonGfe[g.intn(len(nonGfe))])
		} else {
			out = append(out, gfeT4T7prefix+genNumber(g))
		}
	}
	return out
}

func genMD(g *rng) []mdEntry {
	if g.intn(8) == 0 {
		return nil
	}
	var m []mdEntry
	keys := []string{"content-type", "Server-Timing", "server-timing ", "grpc-status", "x"}
	for i, n := 0, g.intn(3); i < n; i++ {
		m = append(m, mdEntry{keys[g.intn(len(keys))], []string{gfeT4T7prefix + "77"}})
	}
	if g.intn(4) != 0 {
		m = append(m, mdEntry{serverTimingKey, genEntries(g)})
	}
	// shuffle
	for i := len(m) - 1; i > 0; i-- {
		j := g.intn(i + 1)
		m[i], m[j] = m[j], m[i]
	}
	return m
}

func genL(g *rng, w *bufio.Writer) {
	h, t := genMD(g), genMD(g)
	runL(w, h, t)
	dist["L"]++
}

const (
	projAlpha = "-_:.abcxyzABCXYZ0189"
	instAlpha = "-_.abcxyzABCXYZ0189"
)

var oddStrings = []string{"", "/", "..", "../..", "a/b", "/a", "a/", "projects/x", "a b", "a\n", "\n", "a\x00b", "é", "日本", "\xff",
	"a:b", "a%2fb", "a\\b", "a?b", "a#b", "+abc", "abc!", "<abc>", "abc=", "google.com:abc", "test-instance", "regional-us-central1", "a..b"}

func genName(g *rng, alpha string, pValid int) string {
	if g.intn(100) < pValid {
		c := g.intn(20)
		switch {
		case c == 0:
			return ""
		case c == 1:
			return strings.Repeat(string(alpha[g.intn(len(alpha))]), 200+g.intn(3000))
		case c == 2:
			return g.pickS([]string{"..", ".", "-", "_", "google.com:abc", "test1", "regional-us-central1"})
		}
		n := 1 + g.intn(12)
		b := make([]byte, n)
		for i := range b {
			b[i] = alpha[g.intn(len(alpha))]
		}
		return string(b)
	}
	c := g.intn(10)
	switch {
	case c < 5:
		return oddStrings[g.intn(len(oddStrings))]
	case c < 8: // a valid name with one foreign byte
		n := 1 + g.intn(8)
		b := make([]byte, n)
		for i := range b {
			b[i] = alpha[g.intn(len(alpha))]
		}
		foreign := []byte("/:/ \n\x00\x80/@")
		b[g.intn(n)] = foreign[g.intn(len(foreign))]
		return string(b)
	default:
		n := g.intn(6)
		b := make([]byte, n)
		for i := range b {
			b[i] = byte(g.intn(256))
		}
		return string(b)
	}
}

func genU(g *rng, w *bufio.Writer) {
	pv := 60 + g.intn(41)
	p := genName(g, projAlpha, pv)
	if g.intn(10) == 0 {
		p = genName(g, instAlpha, pv)
	}
	runU(w, p, genName(g, instAlpha, pv), genName(g, instAlpha, pv), genName(g, instAlpha, pv))
	dist["U"]++
}

var qpsBits = []uint64{
	4457945039842050049,                      // smallest qps whose interval fits into int64
	4457945039842050048, 4457945039842050050, // its neighbours
	math.Float64bits(1), math.Float64bits(1000), math.Float64bits(0.5), math.Float64bits(1e-9),
	math.Float64bits(1e-9) - 1, math.Float64bits(1e-9) + 1,
	math.Float64bits(1e-10), math.Float64bits(1.1e-10), math.Float64bits(3), math.Float64bits(7),
	math.Float64bits(999.9999), math.Float64bits(math.Nextafter(1000, 2000)), math.Float64bits(1e9),
	math.Float64bits(2e9), math.Float64bits(1e300), math.Float64bits(5e-324), math.Float64bits(1e-310),
	0, 1 << 63, math.Float64bits(-1), math.Float64bits(-1e-10), math.Float64bits(math.Inf(1)),
	math.Float64bits(math.Inf(-1)), math.Float64bits(math.NaN()), 0x7ff0000000000001, 0xfff8000000000000,
	math.Float64bits(math.MaxFloat64), math.Float64bits(0.001), math.Float64bits(1.0 / 3),
}

func genQpsBits(g *rng) uint64 {
	c := g.intn(100)
	switch {
	case c < 35:
		return qpsBits[g.intn(len(qpsBits))]
	case c < 70: // in (0, 1000]
		return math.Float64bits(float64(1+g.intn(1000000)) / 1000)
	case c < 80:
		return math.Float64bits(math.Float64frombits(qpsBits[0]) * (0.5 + float64(g.intn(2000))/1000))
	case c < 90:
		return math.Float64bits(math.Pow(10, -float64(g.intn(14))) * float64(1+g.intn(9)))
	default:
		return g.next()
	}
}

func genI(g *rng, w *bufio.Writer) {
	runI(w, genQpsBits(g))
	dist["I"]++
}

var probeNames = []string{"noop", "stale_read", "strong_query", "stale_query", "dml", "read_write"}
var badProbeNames = []string{"", "Noop", "noop ", " noop", "NOOP", "dml\x00", "read-write", "stale", "not_a_probe", "noop\n",
	"stale_read/", "strong_quer", "strong_queryy", "dm", "é"}

func genT(g *rng, w *bufio.Writer) {
	if g.intn(2) == 0 {
		runT(w, probeNames[g.intn(len(probeNames))])
	} else {
		runT(w, badProbeNames[g.intn(len(badProbeNames))])
	}
	dist["T"]++
}

func genP(g *rng, w *bufio.Writer) {
	sizes := []int64{0, 1, 2, 31, 32, 54, 55, 56, 57, 63, 64, 65, 119, 120, 121, 127, 128, 1024, -1, -1024}
	n := g.pick(sizes)
	if g.intn(3) == 0 {
		n = int64(g.intn(700))
	}
	if g.intn(8) == 0 { // large payloads: around page / buffer sizes and well beyond
		n = g.pick([]int64{4095, 4096, 4097, 5000, 8191, 8192, 8193, 10000, 16385, 20001})
	}
	runP(w, int(n))
	dist["P"]++
}

// ---------------------------------------------------------------- main
func envInt(name string, def int) int {
	if v := os.Getenv(name); v != "" {
		if n, err := strconv.Atoi(v); err == nil {
			return n
		}
	}
	return def
}

func TestVerifProber(t *testing.T) {
	outPath := os.Getenv("VERIF_OUT")
	if outPath == "" {
		t.Skip("VERIF_OUT not set")
	}
	f, err := os.Create(outPath)
	if err != nil {
		t.Fatal(err)
	}
	defer f.Close()
	w := bufio.NewWriterSize(f, 1<<20)
	defer w.Flush()

	runK(w)
	for _, hf := range histFiles(os.Getenv("VERIF_HIST")) {
		data, err := os.ReadFile(hf)
		if err != nil {
			t.Fatal(err)
		}
		for ln, line := range strings.Split(string(data), "\n") {
			if strings.HasPrefix(strings.TrimSpace(line), "#") || strings.TrimSpace(line) == "" {
				continue
			}
			if err := runHistLine(w, line); err != nil {
				t.Fatalf("%s:%d: %v", hf, ln+1, err)
			}
		}
	}

	seed := uint64(envInt("VERIF_SEED", 1))
	n := envInt("VERIF_N", 0)
	g := &rng{s: seed*0x9E3779B97F4A7C15 + 0x1234567}
	// per 100 cases: 34 backoff, 30 latency, 14 URI, 12 interval, 6 probe type, 4 payload
	nPayload := 0
	maxPayload := envInt("VERIF_MAXPAYLOAD", 150)
	for i := 0; i < n; i++ {
		c := g.intn(100)
		switch {
		case c < 34:
			genB(g, w)
		case c < 64:
			genL(g, w)
		case c < 78:
			genU(g, w)
		case c < 90:
			genI(g, w)
		case c < 96:
			genT(g, w)
		default:
			if nPayload < maxPayload {
				genP(g, w)
				nPayload++
			} else {
				genL(g, w)
			}
		}
	}

	// flag sets accepted by the real validateFlags (see the file comment)
	if dp := os.Getenv("VERIF_DERIVED"); dp != "" {
		data, err := os.ReadFile(dp)
		if err != nil {
			t.Fatal(err)
		}
		df, err := os.Create(os.Getenv("VERIF_DERIVED_OUT"))
		if err != nil {
			t.Fatal(err)
		}
		dw := bufio.NewWriter(df)
		for ln, line := range strings.Split(string(data), "\n") {
			tok := strings.Fields(line)
			if len(tok) == 0 {
				continue
			}
			if len(tok) != 7 || tok[0] != "G" {
				t.Fatalf("%s:%d: bad derived line", dp, ln+1)
			}
			s, err := unhxAll([]string{tok[1], tok[2], tok[3], tok[4], tok[6]})
			if err != nil {
				t.Fatalf("%s:%d: %v", dp, ln+1, err)
			}
			bits, err := strconv.ParseUint(tok[5], 10, 64)
			if err != nil {
				t.Fatalf("%s:%d: %v", dp, ln+1, err)
			}
			fmt.Fprintf(dw, "%s ; %s ;\n", strings.Join(tok, " "),
				callG(s[0], s[1], s[2], s[3], math.Float64frombits(bits), s[4]))
			dist["G"]++
		}
		dw.Flush()
		df.Close()
	}

	var keys []string
	for k := range dist {
		keys = append(keys, k)
	}
	sort.Strings(keys)
	var sb strings.Builder
	sb.WriteString("prober harness: input distribution:")
	for _, k := range keys {
		fmt.Fprintf(&sb, " %s=%d", k, dist[k])
	}
	sb.WriteString("\n")
	fmt.Fprint(os.Stderr, sb.String())
	// go test hides the output of a passing test binary: keep a copy next to the trace
	os.WriteFile(outPath+".dist", []byte(sb.String()), 0644)
}
