//go:build verif
// +build verif

// Race-stress workload for C10 (MultiEndpoint group): concurrent Current /
// SetEndpointAvailability / SetEndpoints on MultiEndpoints with REAL short timers
// (recovery timeout and switching delay of 1ns..100us), and repeated construction of
// MultiEndpoints whose recovery timers can fire while the constructor still runs.
// Only meaningful under `go test -race`. Knobs: VERIF_MS, VERIF_SEED, VERIF_WORKERS.
package multiendpoint

import (
	"os"
	"strconv"
	"sync"
	"testing"
	"time"
)

type vlmRng struct{ s uint64 }

func (r *vlmRng) next() uint64 {
	r.s += 0x9e3779b97f4a7c15
	z := r.s
	z = (z ^ (z >> 30)) * 0xbf58476d1ce4e5b9
	z = (z ^ (z >> 27)) * 0x94d049bb133111eb
	return z ^ (z >> 31)
}
func (r *vlmRng) intn(n int) int { return int(r.next() % uint64(n)) }

func vlmEnvInt(name string, def int) int {
	if v, err := strconv.Atoi(os.Getenv(name)); err == nil {
		return v
	}
	return def
}

var vlmNames = []string{"a", "b", "c", "d", "e", "f", "g", "h", "i", "j", "k", "l"}

func vlmList(r *vlmRng, max int) []string {
	n := 1 + r.intn(max)
	l := []string{}
	for i := 0; i < n; i++ {
		l = append(l, vlmNames[r.intn(len(vlmNames))])
	}
	return l
}

func TestVerifLocksME(t *testing.T) {
	ms := vlmEnvInt("VERIF_MS", 4000)
	seed := uint64(vlmEnvInt("VERIF_SEED", 1))
	workers := vlmEnvInt("VERIF_WORKERS", 8)
	durs := []time.Duration{time.Nanosecond, time.Microsecond, 20 * time.Microsecond, 100 * time.Microsecond}
	// VERIF_PHASE=ops: operations on shared MultiEndpoints only; ctor: also constructions whose recovery timers
	// fire at once (on the unfixed code this can crash the process: nil map in a timer callback), so it runs last.
	phase := os.Getenv("VERIF_PHASE")
	rounds := 1 + ms/500
	for rd := 0; rd < rounds; rd++ {
		g := &vlmRng{s: seed + uint64(rd)*15485863}
		ctor := phase == "ctor" || (phase != "ops" && rd >= rounds/2)
		// the shared object is built with a recovery timeout long enough for its constructor to finish
		me, err := NewMultiEndpoint(&MultiEndpointOptions{Endpoints: vlmNames[:6], RecoveryTimeout: 300 * time.Microsecond * time.Duration(1+g.intn(3)), SwitchingDelay: durs[g.intn(len(durs))]})
		if err != nil {
			t.Fatal(err)
		}
		stop := make(chan struct{})
		var wg sync.WaitGroup
		for w := 0; w < workers; w++ {
			wg.Add(1)
			go func(w int) {
				defer wg.Done()
				r := &vlmRng{s: g.s*131 + uint64(w)}
				for {
					select {
					case <-stop:
						return
					default:
					}
					switch r.intn(8) {
					case 0:
						_ = me.SetEndpoints(vlmList(r, 8))
					case 1, 2, 3:
						me.SetEndpointAvailability(vlmNames[r.intn(len(vlmNames))], r.intn(2) == 0)
					case 4:
						if !ctor {
							_ = me.Current()
							break
						}
						// construction with recovery timers that fire at once
						m2, err := NewMultiEndpoint(&MultiEndpointOptions{Endpoints: vlmNames, RecoveryTimeout: time.Nanosecond})
						if err == nil {
							_ = m2.Current()
						}
					default:
						_ = me.Current()
					}
				}
			}(w)
		}
		time.Sleep(time.Duration(ms/rounds) * time.Millisecond)
		close(stop)
		wg.Wait()
		time.Sleep(2 * time.Millisecond) // let outstanding timers fire
	}
}
