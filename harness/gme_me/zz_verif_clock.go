//go:build verif

// Added to package multiendpoint by `go test -tags verif -overlay` when the harness of
// engine C (GCPMultiEndpoint, package grpcgcp) runs: lets a test of ANOTHER package replace
// the package's clock and timer factory (timeNow / timeAfterFunc are unexported variables).
// Nothing in /repo is changed.
package multiendpoint

import "time"

// VerifTimer is what a test timer factory returns (the method set of timerAlike).
type VerifTimer interface {
	Reset(time.Duration) bool
	Stop() bool
}

// VerifInstallClock replaces timeNow and timeAfterFunc; the returned function restores them.
func VerifInstallClock(now func() time.Time, after func(d time.Duration, f func()) VerifTimer) (restore func()) {
	oldNow, oldAfter := timeNow, timeAfterFunc
	timeNow = now
	timeAfterFunc = func(d time.Duration, f func()) timerAlike { return after(d, f) }
	return func() { timeNow, timeAfterFunc = oldNow, oldAfter }
}
