//go:build verif

// Harness for engine A (gcpBalancer / gcpPicker). Injected with `go test -tags
// verif -overlay`; the overlay also substitutes copies of gcp_balancer.go and
// gcp_picker.go in which time.Now() is verifNow() (virtual clock).
// It drives the real balancer through balancer.Get(Name).Build(fakeCC, ...)
// with generated / replayed histories and writes one trace line per operation:
//
//	OP ; OUTS RET <ret> UB <unblocked> ; OBS
package grpcgcp

import (
	"bufio"
	"bytes"
	"context"
	"errors"
	"fmt"
	"io/ioutil"
	"os"
	"path/filepath"
	"runtime"
	"sort"
	"strconv"
	"strings"
	"sync"
	"sync/atomic"
	"testing"
	"time"

	"google.golang.org/grpc/balancer"
	"google.golang.org/grpc/codes"
	"google.golang.org/grpc/connectivity"
	"google.golang.org/grpc/grpclog"
	"google.golang.org/grpc/resolver"
	"google.golang.org/grpc/serviceconfig"
	"google.golang.org/grpc/status"

	pb "github.com/GoogleCloudPlatform/grpc-gcp-go/grpcgcp/grpc_gcp"
)

// ---------------------------------------------------------------- PRNG
type vpRng struct{ s uint64 }

func (r *vpRng) next() uint64 {
	r.s += 0x9E3779B97F4A7C15
	z := r.s
	z = (z ^ (z >> 30)) * 0xBF58476D1CE4E5B9
	z = (z ^ (z >> 27)) * 0x94D049BB133111EB
	return z ^ (z >> 31)
}
func (r *vpRng) intn(n int) int        { return int(r.next() % uint64(n)) }
func (r *vpRng) pick(xs []int64) int64 { return xs[r.intn(len(xs))] }
func (r *vpRng) chance(pct int) bool   { return r.intn(100) < pct }

// ---------------------------------------------------------------- virtual clock
var (
	vpBase = time.Unix(1000000000, 0)
	vpNow  int64
	vpMu   sync.Mutex // protects vpNow against the (rare) concurrent readers
)

func verifNow() time.Time {
	vpMu.Lock()
	defer vpMu.Unlock()
	return vpBase.Add(time.Duration(vpNow))
}

// ---- virtual tickers and timers (time.NewTicker / NewTimer / After are rewritten to these by the overlay).
// The harness fires them when it advances the virtual clock (operation V): timers that are due, and up to
// vpMaxTicks rounds of ticks for tickers; a blocked call must survive both (it may only return when its channel
// is READY or its context ended).
type vpVTimer struct {
	C        chan time.Time
	period   int64 // tickers
	deadline int64 // timers (virtual ns)
	ticker   bool
}

var vpVTimers []*vpVTimer // guarded by vpMu

const vpMaxTicks = 35

func vpRegister(t *vpVTimer) *vpVTimer {
	vpMu.Lock()
	vpVTimers = append(vpVTimers, t)
	vpMu.Unlock()
	return t
}

func verifNewTicker(d time.Duration) *vpVTimer {
	return vpRegister(&vpVTimer{C: make(chan time.Time, 1), period: int64(d), ticker: true})
}

func verifNewTimer(d time.Duration) *vpVTimer {
	vpMu.Lock()
	dl := vpNow + int64(d)
	vpMu.Unlock()
	return vpRegister(&vpVTimer{C: make(chan time.Time, 1), deadline: dl})
}

func verifAfter(d time.Duration) <-chan time.Time { return verifNewTimer(d).C }
func verifSince(t time.Time) time.Duration      { return verifNow().Sub(t) }
func verifUntil(t time.Time) time.Duration      { return t.Sub(verifNow()) }

func (t *vpVTimer) Stop() bool {
	vpMu.Lock()
	defer vpMu.Unlock()
	for i, x := range vpVTimers {
		if x == t {
			vpVTimers = append(vpVTimers[:i:i], vpVTimers[i+1:]...)
			return true
		}
	}
	return false
}

func (t *vpVTimer) Reset(d time.Duration) bool {
	active := t.Stop()
	vpMu.Lock()
	if t.ticker {
		t.period = int64(d)
	} else {
		t.deadline = vpNow + int64(d)
	}
	vpVTimers = append(vpVTimers, t)
	vpMu.Unlock()
	return active
}

// vpFire delivers what became due by advancing the virtual clock by adv to now.
func (r *vpRunner) vpFire(adv, now int64) {
	vpMu.Lock()
	var due []*vpVTimer
	rounds := int64(0)
	for _, t := range vpVTimers {
		if !t.ticker && t.deadline <= now {
			due = append(due, t)
		}
		if t.ticker && t.period > 0 && adv/t.period > rounds {
			rounds = adv / t.period
		}
	}
	vpMu.Unlock()
	for _, t := range due {
		t.Stop()
		select {
		case t.C <- verifNow():
		default:
		}
	}
	if rounds > vpMaxTicks {
		rounds = vpMaxTicks
	}
	if len(due) > 0 {
		r.quiesce()
	}
	for i := int64(0); i < rounds && !r.qstuck; i++ {
		vpMu.Lock()
		ts := append([]*vpVTimer{}, vpVTimers...)
		vpMu.Unlock()
		sent := false
		for _, t := range ts {
			if t.ticker && t.period > 0 && adv/t.period > i {
				select {
				case t.C <- verifNow():
					sent = true
				default:
				}
			}
		}
		if !sent {
			break
		}
		r.quiesce()
	}
}

func (r *vpRunner) maxRefreshCnt() uint {
	if !r.gb.mu.TryRLock() { // a lock leaked by the code under test must not hang the harness
		return 1000
	}
	defer r.gb.mu.RUnlock()
	m := uint32(0)
	for _, ref := range r.gb.scRefList {
		if ref.refreshCnt > m {
			m = ref.refreshCnt
		}
	}
	return uint(m)
}

// quiesce waits until every blocked pick is parked in its select again or has returned
func (r *vpRunner) quiesce() {
	deadline := time.Now().Add(vpWatchdog)
	for _, p := range r.picks {
		if !p.blocked {
			continue
		}
		for len(p.res) == 0 && vpGoState(p.goid) != "rrwait" {
			if !time.Now().Before(deadline) {
				r.qstuck = true
				return
			}
			runtime.Gosched()
		}
	}
}

func vpGetNow() int64 {
	vpMu.Lock()
	defer vpMu.Unlock()
	return vpNow
}

// ---------------------------------------------------------------- yield gate
// The overlay rewrites `p.gb.newSubConn()` in getLeastBusySubConnRef into
// `verifYield("grow"); p.gb.newSubConn()`. With the gate on, a Pick parks here:
// between its pool-size check and newSubConn(), i.e. between two critical sections.
var (
	vpGateMu  sync.Mutex
	vpGateOn  bool
	vpParked  []chan struct{}
	vpParkSig = make(chan struct{}, 64)
)

func verifYield(site string) {
	vpGateMu.Lock()
	if !vpGateOn {
		vpGateMu.Unlock()
		return
	}
	ch := make(chan struct{})
	vpParked = append(vpParked, ch)
	vpGateMu.Unlock()
	vpParkSig <- struct{}{}
	<-ch
}

// ---------------------------------------------------------------- fake ClientConn
type vpSC struct {
	id int
	cc *vpCC
}

func (sc *vpSC) UpdateAddresses(a []resolver.Address) {
	sc.cc.emit(fmt.Sprintf("U %d %d", sc.id, vpAddrID(a)))
}
func (sc *vpSC) Connect() { sc.cc.emit(fmt.Sprintf("K %d", sc.id)) }
func (sc *vpSC) GetOrBuildProducer(balancer.ProducerBuilder) (balancer.Producer, func()) {
	return nil, func() {}
}

type vpCC struct {
	mu        sync.Mutex
	outs      []string
	scs       []*vpSC
	fail      bool
	abandoned bool
	pickers   []balancer.Picker
	gb        *gcpBalancer
}

func (cc *vpCC) emit(s string) {
	cc.mu.Lock()
	cc.outs = append(cc.outs, s)
	cc.mu.Unlock()
}

func vpAddrID(a []resolver.Address) int {
	if len(a) == 0 {
		return 0
	}
	n, _ := strconv.Atoi(strings.TrimPrefix(a[0].Addr, "addr"))
	return n
}

func vpAddrs(id int) []resolver.Address {
	if id == 0 {
		return nil
	}
	return []resolver.Address{{Addr: "addr" + strconv.Itoa(id)}, {Addr: "alt" + strconv.Itoa(id)}}
}

func (cc *vpCC) NewSubConn(a []resolver.Address, o balancer.NewSubConnOptions) (balancer.SubConn, error) {
	cc.mu.Lock()
	if cc.abandoned {
		cc.mu.Unlock()
		select {} // park a spinning caller of an abandoned balancer for good
	}
	// like gRPC 1.56.3 (balancer_conn_wrappers.go): an empty address list is refused
	if cc.fail || len(a) == 0 {
		if len(cc.outs) < 2000 { // a spinning caller must not flood the trace
			cc.outs = append(cc.outs, fmt.Sprintf("NF %d", vpAddrID(a)))
		}
		cc.mu.Unlock()
		return nil, errors.New("fake: NewSubConn refused")
	}
	sc := &vpSC{id: len(cc.scs), cc: cc}
	cc.scs = append(cc.scs, sc)
	cc.outs = append(cc.outs, fmt.Sprintf("N %d %d", sc.id, vpAddrID(a)))
	cc.mu.Unlock()
	return sc, nil
}

func (cc *vpCC) RemoveSubConn(sc balancer.SubConn) {
	cc.emit(fmt.Sprintf("RM %d", sc.(*vpSC).id))
}
func (cc *vpCC) UpdateAddresses(sc balancer.SubConn, a []resolver.Address) {
	cc.emit(fmt.Sprintf("U %d %d", sc.(*vpSC).id, vpAddrID(a)))
}
func (cc *vpCC) UpdateState(st balancer.State) {
	cc.mu.Lock()
	cc.pickers = append(cc.pickers, st.Picker)
	cc.outs = append(cc.outs, fmt.Sprintf("S %d %s", int(st.ConnectivityState), vpPickerTokens(cc.gb, st.Picker)))
	cc.mu.Unlock()
}
func (cc *vpCC) ResolveNow(resolver.ResolveNowOptions) {}
func (cc *vpCC) Target() string                        { return "fake" }

func vpSlotIndex(gb *gcpBalancer, ref *subConnRef) int {
	for i, r := range gb.scRefList {
		if r == ref {
			return i
		}
	}
	return -1
}

// caller holds gb.mu or the balancer is quiescent
func vpPickerTokens(gb *gcpBalancer, p balancer.Picker) string {
	switch q := p.(type) {
	case *errPicker:
		if q.err == balancer.ErrTransientFailure {
			return "1"
		}
		return "0"
	case *gcpPicker:
		var sb strings.Builder
		fmt.Fprintf(&sb, "2 %d", len(q.scRefs))
		for _, r := range q.scRefs {
			fmt.Fprintf(&sb, " %d", vpSlotIndex(gb, r))
		}
		return sb.String()
	}
	return "9"
}

// ---------------------------------------------------------------- contexts and messages
type vpMsg struct {
	Keys []string
}

type vpCtx struct {
	deadline int64 // absolute virtual ns, -1 = none
	done     chan struct{}
	once     sync.Once
	gctx     *gcpContext
}

func (c *vpCtx) Deadline() (time.Time, bool) {
	if c.deadline < 0 {
		return time.Time{}, false
	}
	return vpBase.Add(time.Duration(c.deadline)), true
}
func (c *vpCtx) Done() <-chan struct{} { return c.done }
func (c *vpCtx) Err() error {
	select {
	case <-c.done:
		return context.Canceled
	default:
		return nil
	}
}
func (c *vpCtx) Value(k interface{}) interface{} {
	if kk, ok := k.(key); ok && kk == gcpKey && c.gctx != nil {
		return c.gctx
	}
	return nil
}
func (c *vpCtx) cancel() { c.once.Do(func() { close(c.done) }) }

func vpKeyName(id int) string {
	if id == 0 {
		return ""
	}
	return "k" + strconv.Itoa(id)
}
func vpKeyID(s string) int {
	if s == "" {
		return 0
	}
	n, err := strconv.Atoi(strings.TrimPrefix(s, "k"))
	if err != nil {
		return -1
	}
	return n
}
func vpKeyNames(ids []int) []string {
	out := make([]string, len(ids))
	for i, id := range ids {
		out[i] = vpKeyName(id)
	}
	return out
}

// method table shared with the driver (ocaml/pool): id -> (command, locator ok)
var vpMethods = []struct {
	cmd pb.AffinityConfig_Command
	loc string
}{
	{0, ""}, // 0: not configured
	{pb.AffinityConfig_BIND, "keys"},
	{pb.AffinityConfig_BOUND, "keys"},
	{pb.AffinityConfig_UNBIND, "keys"},
	{pb.AffinityConfig_BOUND, "nosuch"},
	{pb.AffinityConfig_BIND, "nosuch"},
	{pb.AffinityConfig_UNBIND, "nosuch"},
	// malformed key locators (empty string, empty segments): extraction must fail, not crash
	{pb.AffinityConfig_BOUND, ""},
	{pb.AffinityConfig_BIND, "keys."},
	{pb.AffinityConfig_UNBIND, "a..b"},
	{pb.AffinityConfig_BOUND, ".keys"},
}

func vpMethodName(id int) string { return "/svc/m" + strconv.Itoa(id) }

// ---------------------------------------------------------------- ops
type vpOp struct {
	kind string // H R RE C P D V X F
	a    []int64
	keys []int
}

func (o vpOp) String() string {
	var sb strings.Builder
	sb.WriteString(o.kind)
	for _, x := range o.a {
		fmt.Fprintf(&sb, " %d", x)
	}
	if o.kind == "P" || o.kind == "D" {
		fmt.Fprintf(&sb, " %d", len(o.keys))
		for _, k := range o.keys {
			fmt.Fprintf(&sb, " %d", k)
		}
	}
	return sb.String()
}

// ---------------------------------------------------------------- a live pick
type vpPick struct {
	id      int
	ctx     *vpCtx
	reply   *vpMsg
	res     chan vpPickRes
	goid    string
	blocked bool
	parked  bool
	placed  bool
	done    func(balancer.DoneInfo)
	fin     bool
}

type vpPickRes struct {
	r     balancer.PickResult
	err   error
	panic interface{}
}

// ---------------------------------------------------------------- runner
type vpRunner struct {
	w           *bufio.Writer
	cc          *vpCC
	gb          *gcpBalancer
	cfg         *GCPBalancerConfig
	picks       []*vpPick
	dead        bool // history ended (panic / stuck)
	nstuck      int
	endHere     bool // a waiting call is stuck: end the history after this event
	qstuck      bool // quiesce timed out: stop firing ticks
	nhist       int
	lastPicked  int64
	parkedPicks []*vpPick
	hdr         vpOp
}

const vpWatchdog = 1500 * time.Millisecond

func vpGoID() string {
	buf := make([]byte, 64)
	n := runtime.Stack(buf, false)
	f := strings.Fields(string(buf[:n]))
	if len(f) >= 2 {
		return f[1]
	}
	return "?"
}

// state of goroutine `goid`: "gone", "rrwait" (parked in the select of
// getSubConnRoundRobin) or "other"
func vpGoState(goid string) string {
	buf := make([]byte, 1<<16)
	for {
		n := runtime.Stack(buf, true)
		if n < len(buf) {
			buf = buf[:n]
			break
		}
		buf = make([]byte, 2*len(buf))
	}
	hdr := []byte("goroutine " + goid + " [")
	i := bytes.Index(buf, hdr)
	if i < 0 {
		return "gone"
	}
	rest := buf[i+len(hdr):]
	end := bytes.Index(rest, []byte("\n\n"))
	if end < 0 {
		end = len(rest)
	}
	block := rest[:end]
	if bytes.HasPrefix(block, []byte("select")) && bytes.Contains(block, []byte("getSubConnRoundRobin")) {
		return "rrwait"
	}
	return "other"
}

func (r *vpRunner) obs() string {
	gb := r.gb
	mufree := 0
	if gb.mu.TryLock() {
		mufree = 1
		defer gb.mu.Unlock()
	} else {
		return "LOCKED"
	}
	var sb strings.Builder
	cfgset := 0
	if gb.cfg != nil {
		cfgset = 1
	}
	fmt.Fprintf(&sb, "%d %d %d %d %d %d", cfgset, vpAddrID(gb.addrs), gb.csEvltr.numReady, gb.csEvltr.numConnecting,
		gb.csEvltr.numTransientFailure, int(gb.state))
	type kv struct{ k, v int }
	dump := func(tag string, rows []kv) {
		sort.Slice(rows, func(i, j int) bool { return rows[i].k < rows[j].k })
		fmt.Fprintf(&sb, " %s %d", tag, len(rows))
		for _, x := range rows {
			fmt.Fprintf(&sb, " %d %d", x.k, x.v)
		}
	}
	scid := func(sc balancer.SubConn) int {
		if s, ok := sc.(*vpSC); ok && s != nil {
			return s.id
		}
		return -1
	}
	var rows []kv
	for k, v := range gb.affinityMap {
		rows = append(rows, kv{vpKeyID(k), scid(v)})
	}
	dump("AFF", rows)
	rows = nil
	for k, v := range gb.fallbackMap {
		rows = append(rows, kv{vpKeyID(k), scid(v)})
	}
	dump("FB", rows)
	rows = nil
	for k, v := range gb.scStates {
		rows = append(rows, kv{scid(k), int(v)})
	}
	dump("ST", rows)
	rows = nil
	for k, v := range gb.scRefs {
		rows = append(rows, kv{scid(k), vpSlotIndex(gb, v)})
	}
	dump("REFS", rows)
	fmt.Fprintf(&sb, " SLOTS %d", len(gb.scRefList))
	for _, ref := range gb.scRefList {
		rf := 0
		if ref.refreshing {
			rf = 1
		}
		fmt.Fprintf(&sb, " %d %d %d %d %d %d %d", scid(ref.subConn), ref.affinityCnt, ref.streamsCnt,
			int64(ref.lastResp.Sub(vpBase)), ref.deCalls, rf, ref.refreshCnt)
	}
	fmt.Fprintf(&sb, " %d", gb.rrRefId)
	rows = nil
	for k, v := range gb.refreshingScRefs {
		rows = append(rows, kv{scid(k), vpSlotIndex(gb, v)})
	}
	dump("REFR", rows)
	ud := 0
	if gb.unresponsiveDetection {
		ud = 1
	}
	fmt.Fprintf(&sb, " %d PK %s %d %d %d", ud, vpPickerTokens(gb, gb.picker), len(r.cc.pickers), vpGetNow(), mufree)
	return sb.String()
}

func (r *vpRunner) takeOuts() string {
	r.cc.mu.Lock()
	defer r.cc.mu.Unlock()
	s := strings.Join(r.cc.outs, " ")
	r.cc.outs = r.cc.outs[:0]
	return s
}

func (r *vpRunner) emit(o vpOp, ret string, ub string) {
	obs := "DEAD"
	if !r.dead {
		obs = r.obs()
	}
	fmt.Fprintf(r.w, "%s ; %s RET %s UB%s ; %s\n", o.String(), r.takeOuts(), ret, ub, obs)
}

// call runs f in a worker goroutine; returns "ok", "panic" or "stuck".
func (r *vpRunner) call(f func()) string {
	ch := make(chan interface{}, 1)
	go func() {
		defer func() { ch <- recover() }()
		f()
	}()
	select {
	case p := <-ch:
		if p != nil {
			return "panic"
		}
		return "ok"
	case <-time.After(vpWatchdog):
		r.cc.mu.Lock()
		r.cc.abandoned = true
		r.cc.mu.Unlock()
		return "stuck"
	}
}

func (r *vpRunner) start(h vpOp) {
	vpMu.Lock()
	vpNow = 0
	vpVTimers = nil
	vpMu.Unlock()
	r.qstuck, r.endHere = false, false
	r.hdr = h
	r.cc = &vpCC{}
	r.picks = nil
	r.parkedPicks = nil
	r.dead = false
	vpGateMu.Lock()
	vpGateOn = false
	vpParked = nil
	vpGateMu.Unlock()
	b := balancer.Get(Name).Build(r.cc, balancer.BuildOptions{})
	r.gb = b.(*gcpBalancer)
	r.cc.gb = r.gb
	// H min max wm fb ums ucalls rr cfgnil [cursor]
	a := h.a
	if len(a) > 8 {
		// state injection (only in hand-written corpus histories): start with the round-robin cursor at a
		// given value, to reach the neighbourhood of its 32-bit wrap without 2^32 calls
		atomic.StoreUint32(&r.gb.rrRefId, uint32(a[8]))
	}
	r.cfg = &GCPBalancerConfig{}
	if a[7] == 0 {
		strategy := pb.ChannelPoolConfig_UNSPECIFIED
		if a[6] == 1 {
			strategy = pb.ChannelPoolConfig_ROUND_ROBIN
		} else if a[6] == 2 {
			strategy = pb.ChannelPoolConfig_LEAST_ACTIVE_STREAMS
		}
		api := &pb.ApiConfig{ChannelPool: &pb.ChannelPoolConfig{
			MinSize: uint32(a[0]), MaxSize: uint32(a[1]), MaxConcurrentStreamsLowWatermark: uint32(a[2]),
			FallbackToReady: a[3] != 0, UnresponsiveDetectionMs: uint32(a[4]), UnresponsiveCalls: uint32(a[5]),
			BindPickStrategy: strategy,
		}}
		if a[0] == 0 && a[1] == 0 && a[2] == 0 && a[3] == 0 && a[4] == 0 && a[5] == 0 && a[6] == 0 {
			// an ApiConfig without a channel_pool message must behave like an all-zero one
			api.ChannelPool = nil
		}
		for id := 1; id < len(vpMethods); id++ {
			api.Method = append(api.Method, &pb.MethodConfig{
				Name:     []string{vpMethodName(id)},
				Affinity: &pb.AffinityConfig{Command: vpMethods[id].cmd, AffinityKey: vpMethods[id].loc},
			})
		}
		r.cfg.ApiConfig = api
	}
	fmt.Fprintf(r.w, "%s ;  ; %s\n", h.String(), r.obs())
}

type vpWrongCfg struct {
	serviceconfig.LoadBalancingConfig
}

var vpDeErr = status.Error(codes.DeadlineExceeded, context.DeadlineExceeded.Error())

// waitPick waits until the pick's goroutine has returned ("done"), is parked
// in the select of getSubConnRoundRobin ("blocked"), or the watchdog expires.
func vpWaitPick(p *vpPick) (string, vpPickRes) {
	deadline := time.Now().Add(vpWatchdog)
	for {
		select {
		case res := <-p.res:
			return "done", res
		case <-vpParkSig:
			return "parked", vpPickRes{}
		default:
		}
		if vpGoState(p.goid) == "rrwait" {
			// it may have finished between the two checks
			select {
			case res := <-p.res:
				return "done", res
			default:
			}
			return "blocked", vpPickRes{}
		}
		if time.Now().After(deadline) {
			return "stuck", vpPickRes{}
		}
		runtime.Gosched()
	}
}

// settle: after an operation, every blocked pick either returns or is parked again
func (r *vpRunner) settle() string {
	var sb strings.Builder
	for _, p := range r.picks {
		if !p.blocked {
			continue
		}
		st, res := vpWaitPick(p)
		switch st {
		case "done":
			p.blocked = false
			if res.panic != nil || res.err != nil || res.r.SubConn == nil {
				fmt.Fprintf(&sb, " %d -2", p.id)
			} else {
				p.placed = true
				p.done = res.r.Done
				fmt.Fprintf(&sb, " %d %d", p.id, res.r.SubConn.(*vpSC).id)
			}
		case "stuck":
			// neither parked in its select nor finished (spinning, or blocked somewhere else): the history ends
			// here, and the run stops after a few of these (each costs a watchdog period)
			fmt.Fprintf(&sb, " %d -3", p.id)
			r.nstuck++
			r.endHere = true
		}
	}
	return sb.String()
}

func (r *vpRunner) apply(o vpOp) {
	if r.dead {
		return
	}
	ret := "none"
	switch o.kind {
	case "R":
		var cfg serviceconfig.LoadBalancingConfig
		switch o.a[1] {
		case 1:
			cfg = &vpWrongCfg{}
		case 2:
			cfg = r.cfg
		}
		var err error
		st := r.call(func() {
			err = r.gb.UpdateClientConnState(balancer.ClientConnState{
				ResolverState: resolver.State{Addresses: vpAddrs(int(o.a[0]))}, BalancerConfig: cfg})
		})
		if st != "ok" {
			ret = st
		} else if err != nil {
			ret = "cfgerr"
		}
	case "RE":
		st := r.call(func() { r.gb.ResolverError(errors.New("resolver error")) })
		if st != "ok" {
			ret = st
		}
	case "C":
		id := int(o.a[0])
		var sc balancer.SubConn
		r.cc.mu.Lock()
		if id >= 0 && id < len(r.cc.scs) {
			sc = r.cc.scs[id]
		} else {
			sc = &vpSC{id: id, cc: r.cc} // a connection the balancer has never seen
		}
		r.cc.mu.Unlock()
		st := r.call(func() {
			r.gb.UpdateSubConnState(sc, balancer.SubConnState{ConnectivityState: connectivity.State(o.a[1])})
		})
		if st != "ok" {
			ret = st
		}
	case "P":
		// P picker method hasctx deadline cancelled nkeys keys...
		pi := int(o.a[0])
		r.cc.mu.Lock()
		var pk balancer.Picker
		if pi >= 0 && pi < len(r.cc.pickers) {
			pk = r.cc.pickers[pi]
		}
		r.cc.mu.Unlock()
		if pk == nil {
			ret = "badop"
			break
		}
		ctx := &vpCtx{deadline: o.a[3], done: make(chan struct{})}
		reply := &vpMsg{}
		if o.a[2] != 0 {
			ctx.gctx = &gcpContext{reqMsg: &vpMsg{Keys: vpKeyNames(o.keys)}, replyMsg: reply}
		}
		if o.a[4] != 0 || (o.a[3] >= 0 && o.a[3] <= vpGetNow()) {
			ctx.cancel()
		}
		p := &vpPick{id: len(r.picks), ctx: ctx, reply: reply, res: make(chan vpPickRes, 1)}
		ready := make(chan struct{})
		go func() {
			p.goid = vpGoID()
			close(ready)
			var res vpPickRes
			defer func() {
				res.panic = recover()
				p.res <- res
			}()
			res.r, res.err = pk.Pick(balancer.PickInfo{FullMethodName: vpMethodName(int(o.a[1])), Ctx: ctx})
		}()
		<-ready
		st, res := vpWaitPick(p)
		switch {
		case st == "parked":
			p.parked = true
			r.parkedPicks = append(r.parkedPicks, p)
			ret = "parked"
		case st == "blocked":
			p.blocked = true
			r.picks = append(r.picks, p)
			ret = "blocked"
		case st == "stuck":
			ret = "stuck"
			r.cc.mu.Lock()
			r.cc.abandoned = true
			r.cc.mu.Unlock()
		case res.panic != nil:
			ret = "panic"
		case res.err == balancer.ErrNoSubConnAvailable:
			ret = "nosub"
		case res.err == balancer.ErrTransientFailure:
			ret = "tf"
		case res.err != nil:
			ret = "keyerr"
		case res.r.SubConn == nil:
			ret = "nilsc"
		default:
			p.placed = true
			p.done = res.r.Done
			r.picks = append(r.picks, p)
			r.lastPicked = int64(res.r.SubConn.(*vpSC).id)
			ret = fmt.Sprintf("picked %d", res.r.SubConn.(*vpSC).id)
		}
	case "D":
		// D pick outcome nkeys keys...
		j := int(o.a[0])
		if j < 0 || j >= len(r.picks) || !r.picks[j].placed || r.picks[j].fin || r.picks[j].done == nil {
			ret = "badop"
			break
		}
		p := r.picks[j]
		p.fin = true
		p.reply.Keys = vpKeyNames(o.keys)
		var err error
		switch o.a[1] {
		case 1:
			err = status.Error(codes.Unavailable, "unavailable")
		case 2:
			err = vpDeErr
		case 3:
			err = status.Error(codes.DeadlineExceeded, "deadline exceeded on the server")
		}
		st := r.call(func() { p.done(balancer.DoneInfo{Err: err}) })
		if st != "ok" {
			ret = st
		}
	case "V":
		if o.a[0] < 0 {
			ret = "badop"
			break
		}
		vpMu.Lock()
		vpNow += o.a[0]
		now := vpNow
		vpMu.Unlock()
		for _, p := range r.picks {
			if p.ctx.deadline >= 0 && p.ctx.deadline <= now {
				p.ctx.cancel()
			}
		}
		r.quiesce()
		r.vpFire(o.a[0], now)
	case "X":
		j := int(o.a[0])
		if j < 0 || j >= len(r.picks) {
			ret = "badop"
			break
		}
		r.picks[j].ctx.cancel()
	case "F":
		r.cc.mu.Lock()
		r.cc.fail = o.a[0] != 0
		r.cc.mu.Unlock()
	case "G":
		vpGateMu.Lock()
		vpGateOn = o.a[0] != 0
		vpGateMu.Unlock()
	case "Z":
		k := int(o.a[0])
		vpGateMu.Lock()
		if k < 0 || k >= len(vpParked) || k >= len(r.parkedPicks) {
			vpGateMu.Unlock()
			ret = "badop"
			break
		}
		ch := vpParked[k]
		vpParked = append(vpParked[:k:k], vpParked[k+1:]...)
		vpGateMu.Unlock()
		p := r.parkedPicks[k]
		r.parkedPicks = append(r.parkedPicks[:k:k], r.parkedPicks[k+1:]...)
		close(ch)
		select {
		case res := <-p.res:
			switch {
			case res.panic != nil:
				ret = "panic"
			case res.err == balancer.ErrNoSubConnAvailable:
				ret = "nosub"
			default:
				ret = "nilsc"
			}
		case <-time.After(vpWatchdog):
			ret = "stuck"
			r.cc.mu.Lock()
			r.cc.abandoned = true
			r.cc.mu.Unlock()
		}
	}
	if ret == "stuck" {
		r.nstuck++
	}
	if ret == "panic" || ret == "stuck" {
		r.dead = true
		r.emit(o, ret, "")
		return
	}
	ub := r.settle()
	r.emit(o, ret, ub)
	if r.endHere {
		r.endHere = false
		r.dead = true
	}
}

func (r *vpRunner) finish() {
	for _, p := range r.picks {
		p.ctx.cancel()
	}
	vpGateMu.Lock()
	vpGateOn = false
	for _, ch := range vpParked {
		close(ch)
	}
	vpParked = nil
	vpGateMu.Unlock()
}

func (r *vpRunner) runHistory(h []vpOp) {
	if len(h) == 0 || h[0].kind != "H" {
		return
	}
	r.start(h[0])
	for _, o := range h[1:] {
		r.apply(o)
	}
	r.finish()
}

// ---------------------------------------------------------------- generation
func (r *vpRunner) genAndRun(g *vpRng, maxOps int, prop string) {
	sizes := []int64{0, 1, 2, 3, 5}
	wms := []int64{0, 1, 2, 3, 100}
	h := vpOp{kind: "H", a: []int64{g.pick(sizes), g.pick(sizes), g.pick(wms), int64(g.intn(2)),
		g.pick([]int64{0, 1, 100}), g.pick([]int64{0, 1, 2, 3}), int64(g.intn(3)), 0}}
	if g.intn(25) == 0 {
		h.a[7] = 1
	}
	if g.intn(40) == 0 {
		h.a[2] = g.pick([]int64{2147483648, 4294967295})
	}
	// property-directed bias
	switch prop {
	case "C07":
		h.a[4] = g.pick([]int64{1, 2, 100})
		h.a[5] = g.pick([]int64{1, 2, 3})
		if g.intn(12) == 0 { // extreme values (uint32 products / shifts)
			pr := [][2]int64{{65536, 65536}, {2147483648, 2}, {4294967295, 4294967295}, {3000000, 1}, {1, 4294967295}}[g.intn(5)]
			h.a[4], h.a[5] = pr[0], pr[1]
		}
	case "C01", "C02":
		if g.chance(50) {
			h.a[3] = 1
		}
		if g.chance(50) {
			h.a[0] = g.pick([]int64{3, 3, 5})
			h.a[1] = g.pick([]int64{3, 5})
		}
	case "C08":
		h.a[3] = 1
		if g.chance(40) {
			h.a[4], h.a[5] = 1, 1
		}
		if g.chance(60) {
			h.a[0] = g.pick([]int64{3, 3, 5})
			h.a[1] = g.pick([]int64{3, 5})
		}
	case "C09":
		h.a[6] = 1
	case "C03":
		h.a[2] = g.pick([]int64{1, 2, 3})
	}
	// occasionally a large pool (counters / cursors / sizes beyond a byte)
	r.nhist++
	big := r.nhist == 5 || (prop == "C04" || prop == "C03" || prop == "C09") && r.nhist == 40
	if big {
		n := g.pick([]int64{256, 257, 300})
		h.a[0], h.a[1], h.a[7] = n, n, 0
	}
	// occasionally many calls in flight on one channel (the default watermark of 100 streams, counters and
	// load comparisons beyond the handful of calls of an ordinary history)
	heavy := 0
	switch r.nhist { // every run has each kind once, whatever the property; two more by property
	case 7:
		heavy = 1
	case 23:
		heavy = 2
	case 41:
		heavy = 3
	case 55, 90:
		switch prop {
		case "C09":
			heavy = 1
		case "C03":
			heavy = 2
		case "C02":
			heavy = 1 + (r.nhist/55)%2 // 55 -> 2, 90 -> 2 ... keep both kinds below
			if r.nhist == 90 {
				heavy = 1
			}
		case "C01", "C08":
			heavy = 3
			if r.nhist == 90 {
				heavy = 1
			}
		}
	}
	switch heavy {
	case 1: // round-robin BIND over two channels, one of them loaded with bound calls
		h.a = []int64{2, 2, 0, g.pick([]int64{0, 1}), 0, 0, 1, 0}
	case 2: // growth at the DEFAULT watermark
		h.a = []int64{1, g.pick([]int64{2, 3}), 0, 0, 0, 0, 0, 0}
	case 3: // many affinity keys
		n := g.pick([]int64{2, 3, 4})
		h.a = []int64{n, n, 100, g.pick([]int64{0, 1}), 0, 0, 0, 0}
	}
	r.start(h)
	if heavy > 0 {
		r.apply(vpOp{kind: "R", a: []int64{1, 2}})
		for id := 0; id < len(r.cc.scs) && !r.dead; id++ {
			r.apply(vpOp{kind: "C", a: []int64{int64(id), 2}})
		}
		last := func() int64 { return int64(len(r.cc.pickers) - 1) }
		if len(r.cc.pickers) == 0 {
			r.finish()
			return
		}
		if heavy == 1 {
			b := len(r.picks)
			r.apply(vpOp{kind: "P", a: []int64{last(), 1, 1, -1, 0}})
			if len(r.picks) > b && r.picks[b].placed && !r.dead {
				r.apply(vpOp{kind: "D", a: []int64{int64(b), 0}, keys: []int{1}})
			}
			nload := int(g.pick([]int64{99, 100, 101, 130}))
			for q := 0; q < nload && !r.dead; q++ {
				r.apply(vpOp{kind: "P", a: []int64{last(), 2, 1, -1, 0}, keys: []int{1}})
			}
			for q := 0; q < 5 && !r.dead; q++ {
				r.apply(vpOp{kind: "P", a: []int64{last(), 1, 1, -1, 0}})
			}
			for q := 0; q < 3 && !r.dead; q++ {
				r.apply(vpOp{kind: "P", a: []int64{last(), 0, 1, -1, 0}})
			}
		} else if heavy == 3 {
			nk := int(g.pick([]int64{130, 150, 260}))
			for k := 1; k <= nk && !r.dead; k++ {
				b := len(r.picks)
				r.apply(vpOp{kind: "P", a: []int64{last(), 1, 1, -1, 0}})
				if len(r.picks) > b && r.picks[b].placed && !r.dead {
					r.apply(vpOp{kind: "D", a: []int64{int64(b), 0}, keys: []int{k}})
				}
			}
			use := func(m int64, k int) {
				b := len(r.picks)
				r.apply(vpOp{kind: "P", a: []int64{last(), m, 1, -1, 0}, keys: []int{k}})
				if len(r.picks) > b && r.picks[b].placed && !r.dead && g.chance(70) {
					r.apply(vpOp{kind: "D", a: []int64{int64(b), 0}, keys: []int{k}})
				}
			}
			for q := 0; q < 25 && !r.dead; q++ {
				use(2, 1+g.intn(nk))
			}
			if len(r.cc.scs) > 0 && !r.dead { // one channel goes away and comes back
				r.apply(vpOp{kind: "C", a: []int64{0, 3}})
				for q := 0; q < 6 && !r.dead; q++ {
					use(2, 1+g.intn(nk))
				}
				r.apply(vpOp{kind: "C", a: []int64{0, 2}})
			}
			for q := 0; q < 12 && !r.dead; q++ {
				k := 1 + g.intn(nk)
				use(3, k)
				use(2, k)
			}
			for q := 0; q < 10 && !r.dead; q++ {
				use(2, 1+g.intn(nk))
			}
		} else {
			nload := int(g.pick([]int64{99, 100, 101, 102}))
			for q := 0; q < nload && !r.dead; q++ {
				r.apply(vpOp{kind: "P", a: []int64{last(), 0, 1, -1, 0}})
			}
			for id := 0; id < len(r.cc.scs) && !r.dead; id++ {
				r.apply(vpOp{kind: "C", a: []int64{int64(id), 2}})
			}
			for q := 0; q < 6 && !r.dead; q++ {
				r.apply(vpOp{kind: "P", a: []int64{last(), 0, 1, -1, 0}})
			}
			for q := 0; q < 4 && !r.dead && q < len(r.picks); q++ {
				if r.picks[q].placed && !r.picks[q].fin {
					r.apply(vpOp{kind: "D", a: []int64{int64(q), 0}})
				}
			}
			for q := 0; q < 3 && !r.dead; q++ {
				r.apply(vpOp{kind: "P", a: []int64{last(), 0, 1, -1, 0}})
			}
		}
		r.finish()
		return
	}
	if big {
		r.apply(vpOp{kind: "R", a: []int64{1, 2}})
		st := g.pick([]int64{1, 2})
		for id := 0; id < len(r.cc.scs) && !r.dead; id++ {
			r.apply(vpOp{kind: "C", a: []int64{int64(id), st}})
		}
		for q := 0; q < 6 && !r.dead && len(r.cc.pickers) > 0; q++ {
			r.apply(vpOp{kind: "P", a: []int64{int64(len(r.cc.pickers) - 1), g.pick([]int64{0, 1, 2}), 1, -1, 0}, keys: []int{1}})
		}
		for id := 0; id < len(r.cc.scs) && id < 40 && !r.dead; id++ {
			r.apply(vpOp{kind: "C", a: []int64{int64(id), g.pick([]int64{2, 3, 1})}})
		}
		r.finish()
		return
	}
	nkeys := 1 + g.intn(3)
	naddr := 1
	genKeys := func() []int {
		n := 1
		c := g.intn(20)
		if c == 0 {
			n = 0
		} else if c < 4 {
			n = 2
		}
		ks := make([]int, n)
		for i := range ks {
			ks[i] = 1 + g.intn(nkeys)
			if g.intn(30) == 0 {
				ks[i] = 0
			}
		}
		return ks
	}
	// first operation is almost always a resolver update
	if g.intn(20) != 0 {
		a := int64(2)
		if g.intn(15) == 0 {
			a = int64(g.intn(2))
		}
		r.apply(vpOp{kind: "R", a: []int64{1, a}})
	}
	n := 1 + g.intn(maxOps)
	for i := 0; i < n && !r.dead; i++ {
		nsc := len(r.cc.scs)
		npk := len(r.cc.pickers)
		var placed, blocked []int
		for _, p := range r.picks {
			if p.placed && !p.fin {
				placed = append(placed, p.id)
			}
			if p.blocked {
				blocked = append(blocked, p.id)
			}
		}
		// a long time passes under a waiting round-robin call: it may only return for its channel or its context
		if len(blocked) > 0 && g.chance(20) {
			r.apply(vpOp{kind: "V", a: []int64{g.pick([]int64{3000000001, 10000000000, 60000000001, 3600000000000, 86400000000000})}})
			continue
		}
		// directed mini-scenarios (keep the interesting situations frequent)
		if npk > 0 && g.chance(12) {
			latest := int64(npk - 1)
			// weighted choice of a scenario, biased by the property under check
			scn := []string{"deadline", "bind", "saturate", "gate", "standin", "chain", "none"}[g.intn(7)]
			if g.chance(60) {
				switch prop {
				case "C07":
					scn = []string{"deadline", "deadline", "chain"}[g.intn(3)]
				case "C01":
					scn = []string{"bind", "bind", "standin", "deadline"}[g.intn(4)]
				case "C08", "C02":
					scn = []string{"standin", "standin", "bind", "saturate"}[g.intn(4)]
				case "C03":
					scn = []string{"gate", "saturate", "saturate", "chain"}[g.intn(4)]
				}
			}
			switch {
			case scn == "deadline":
				// a call with a short deadline that ends with a client-side deadline-exceeded after the window
				dl := vpGetNow() + g.pick([]int64{1000000, 2000000})
				before := len(r.picks)
				r.apply(vpOp{kind: "P", a: []int64{latest, 0, 1, dl, 0}})
				if len(r.picks) > before && !r.dead {
					r.apply(vpOp{kind: "V", a: []int64{g.pick([]int64{1000000, 1000001, 2000001, 100000001, 200000001, 400000001})}})
					r.apply(vpOp{kind: "D", a: []int64{int64(before), 2}})
					// the replacement (if any) becomes READY
					if g.chance(60) && len(r.cc.scs) > nsc && !r.dead {
						if g.chance(30) {
							r.apply(vpOp{kind: "C", a: []int64{int64(len(r.cc.scs) - 1), 1}})
						}
						r.apply(vpOp{kind: "C", a: []int64{int64(len(r.cc.scs) - 1), 2}})
					}
				}
				continue
			case scn == "chain":
				// consecutive refreshes without a response: the window doubles every time (ms * 2^k);
				// calls end just after, exactly at, or half-way through the current window
				ums := h.a[4]
				if ums <= 0 || ums > 100000 || h.a[5] <= 0 {
					continue
				}
				for round, rounds := 0, 3+g.intn(8); round < rounds && !r.dead; round++ {
					k := r.maxRefreshCnt()
					if k > 40 {
						break
					}
					w := (ums * 1000000) << k
					before, nsc0 := len(r.picks), len(r.cc.scs)
					r.apply(vpOp{kind: "P", a: []int64{latest, 0, 1, vpGetNow() + 1000, 0}})
					if len(r.picks) == before || r.dead {
						break
					}
					dt := w + 1
					switch g.intn(10) {
					case 0:
						dt = w
					case 1, 2:
						dt = w/2 + 1000
					}
					r.apply(vpOp{kind: "V", a: []int64{dt}})
					for q := int64(1); q < h.a[5] && q < 4 && !r.dead; q++ {
						// enough deadline-exceeded calls to reach unresponsive_calls
						b2 := len(r.picks)
						r.apply(vpOp{kind: "P", a: []int64{latest, 0, 1, vpGetNow() + 1000, 0}})
						r.apply(vpOp{kind: "V", a: []int64{1000}})
						if len(r.picks) > b2 && r.picks[b2].placed && !r.dead {
							r.apply(vpOp{kind: "D", a: []int64{int64(b2), 2}})
						}
					}
					if r.picks[before].placed && !r.dead {
						r.apply(vpOp{kind: "D", a: []int64{int64(before), 2}})
					}
					if len(r.cc.scs) > nsc0 && !r.dead {
						// the replacement becomes READY, sometimes after failing first; sometimes it only fails
						// (the refresh stays in flight: no second replacement may appear)
						c := g.intn(10)
						if c < 3 {
							r.apply(vpOp{kind: "C", a: []int64{int64(len(r.cc.scs) - 1), g.pick([]int64{3, 1, 0})}})
						}
						if c != 0 && !r.dead {
							r.apply(vpOp{kind: "C", a: []int64{int64(len(r.cc.scs) - 1), 2}})
						}
					}
				}
				continue
			case scn == "bind":
				// bind a key, then use it
				before := len(r.picks)
				r.apply(vpOp{kind: "P", a: []int64{latest, 1, 1, -1, 0}})
				if len(r.picks) > before && r.picks[before].placed && !r.dead {
					k := 1 + g.intn(nkeys)
					r.apply(vpOp{kind: "D", a: []int64{int64(before), 0}, keys: []int{k}})
					if g.chance(50) && nsc > 0 && !r.dead {
						r.apply(vpOp{kind: "C", a: []int64{int64(g.intn(nsc)), g.pick([]int64{3, 1, 0, 2})}})
					}
					if !r.dead && len(r.cc.pickers) > 0 {
						r.apply(vpOp{kind: "P", a: []int64{int64(len(r.cc.pickers) - 1), g.pick([]int64{2, 2, 3}), 1, -1, 0}, keys: []int{k}})
					}
				}
				continue
			case scn == "gate" && os.Getenv("VERIF_NOGATE") == "" && npk >= 2 && len(r.parkedPicks) == 0:
				// check-then-create window: a growing call on a superseded picker is parked between its
				// size check and newSubConn(); meanwhile the pool changes
				stale := int64(g.intn(npk - 1))
				r.apply(vpOp{kind: "G", a: []int64{1}})
				r.apply(vpOp{kind: "P", a: []int64{stale, 0, 1, -1, 0}})
				r.apply(vpOp{kind: "G", a: []int64{0}})
				if len(r.parkedPicks) > 0 && !r.dead {
					for q := 0; q < 1+g.intn(3) && !r.dead; q++ {
						before := len(r.cc.scs)
						r.apply(vpOp{kind: "P", a: []int64{int64(len(r.cc.pickers) - 1), 0, 1, -1, 0}})
						if len(r.cc.scs) > before && g.chance(80) && !r.dead {
							r.apply(vpOp{kind: "C", a: []int64{int64(len(r.cc.scs) - 1), 2}})
						}
					}
					if !r.dead {
						r.apply(vpOp{kind: "Z", a: []int64{0}})
					}
				}
				continue
			case scn == "standin" && h.a[3] == 1 && nsc >= 2:
				// stale stand-in: bind K, home goes down, a keyed call falls back to a stand-in, K is
				// unbound while the stand-in mapping exists, then K is used again (as an unknown key, or re-bound)
				k := 1 + g.intn(nkeys)
				if g.chance(70) { // several READY channels make the scenario bite
					for id := 0; id < nsc && id < 6 && !r.dead; id++ {
						r.apply(vpOp{kind: "C", a: []int64{int64(id), 2}})
					}
					latest = int64(len(r.cc.pickers) - 1)
				}
				before := len(r.picks)
				r.apply(vpOp{kind: "P", a: []int64{latest, 1, 1, -1, 0}})
				if !(len(r.picks) > before && r.picks[before].placed) || r.dead {
					continue
				}
				home := int64(-1)
				if res := r.picks[before]; res != nil {
					// the connection the BIND call was placed on
					home = r.lastPicked
				}
				r.apply(vpOp{kind: "D", a: []int64{int64(before), 0}, keys: []int{k}})
				if home < 0 || r.dead {
					continue
				}
				r.apply(vpOp{kind: "C", a: []int64{home, 3}})
				lp := func() int64 { return int64(len(r.cc.pickers) - 1) }
				if r.dead || lp() < 0 {
					continue
				}
				bfb := len(r.picks)
				fbdl := int64(-1)
				refreshStandin := h.a[4] > 0 && h.a[5] == 1 && g.chance(60)
				if refreshStandin {
					fbdl = vpGetNow() + 1000000
				}
				r.apply(vpOp{kind: "P", a: []int64{lp(), 2, 1, fbdl, 0}, keys: []int{k}}) // falls back
				b2 := len(r.picks)
				r.apply(vpOp{kind: "P", a: []int64{lp(), 3, 1, -1, 0}, keys: []int{k}}) // UNBIND
				if len(r.picks) > b2 && r.picks[b2].placed && !r.dead {
					r.apply(vpOp{kind: "D", a: []int64{int64(b2), 0}})
				}
				if refreshStandin && len(r.picks) > bfb && r.picks[bfb].placed && !r.dead {
					// the stand-in turns unresponsive and is refreshed while K is unbound
					nb := len(r.cc.scs)
					r.apply(vpOp{kind: "V", a: []int64{h.a[4]*1000000 + 1000001}})
					r.apply(vpOp{kind: "D", a: []int64{int64(bfb), 2}})
					if len(r.cc.scs) > nb && !r.dead {
						r.apply(vpOp{kind: "C", a: []int64{int64(len(r.cc.scs) - 1), 2}})
					}
				}
				if g.chance(50) {
					// K is now unknown: load the channels unevenly, then use K
					for q := 0; q < 1+g.intn(3) && !r.dead; q++ {
						r.apply(vpOp{kind: "P", a: []int64{lp(), 0, 1, -1, 0}})
					}
					if len(placed) > 0 && g.chance(50) && !r.dead {
						r.apply(vpOp{kind: "D", a: []int64{int64(placed[g.intn(len(placed))]), 0}})
					}
					if !r.dead {
						r.apply(vpOp{kind: "P", a: []int64{lp(), 2, 1, -1, 0}, keys: []int{k}})
					}
				} else {
					// re-bind K (possibly on another channel), then use it
					if g.chance(50) && !r.dead {
						r.apply(vpOp{kind: "P", a: []int64{lp(), 0, 1, -1, 0}})
					}
					b3 := len(r.picks)
					if !r.dead {
						r.apply(vpOp{kind: "P", a: []int64{lp(), 1, 1, -1, 0}})
					}
					if len(r.picks) > b3 && r.picks[b3].placed && !r.dead {
						r.apply(vpOp{kind: "D", a: []int64{int64(b3), 0}, keys: []int{k}})
						for q := 0; q < 2 && !r.dead; q++ {
							r.apply(vpOp{kind: "P", a: []int64{lp(), 2, 1, -1, 0}, keys: []int{k}})
						}
					}
				}
				continue
			case scn == "saturate":
				// saturate: several calls that stay open
				for q := 0; q < 2+g.intn(4) && !r.dead; q++ {
					r.apply(vpOp{kind: "P", a: []int64{int64(len(r.cc.pickers) - 1), 0, 1, -1, 0}})
				}
				continue
			}
		}
		c := g.intn(100)
		switch {
		case c < 22: // connection state report
			if nsc == 0 {
				r.apply(vpOp{kind: "R", a: []int64{int64(naddr), 2}})
				break
			}
			id := g.intn(nsc)
			if g.intn(20) == 0 {
				id = nsc + g.intn(2)
			}
			st := g.pick([]int64{2, 2, 2, 2, 1, 3, 0, 2, 3, 1, 4})
			if g.intn(4) == 0 {
				st = int64(g.intn(5))
			}
			r.apply(vpOp{kind: "C", a: []int64{int64(id), st}})
		case c < 60: // pick
			if npk == 0 {
				if nsc > 0 {
					r.apply(vpOp{kind: "C", a: []int64{int64(g.intn(nsc)), 2}})
				} else {
					r.apply(vpOp{kind: "R", a: []int64{int64(naddr), 2}})
				}
				break
			}
			pi := npk - 1
			if g.intn(8) == 0 {
				pi = g.intn(npk)
			}
			m := g.pick([]int64{0, 0, 1, 1, 2, 2, 2, 3, 2, 1, 4, 5, 6})
			if g.intn(25) == 0 {
				m = g.pick([]int64{7, 8, 9, 10})
			}
			hasctx := int64(1)
			if g.intn(15) == 0 {
				hasctx = 0
			}
			dl := int64(-1)
			if g.intn(3) == 0 {
				dl = vpGetNow() + g.pick([]int64{0, 1, 1000000, 50000000, 100000000, 200000000, 1000000000})
			}
			canc := int64(0)
			if g.intn(40) == 0 {
				canc = 1
			}
			r.apply(vpOp{kind: "P", a: []int64{int64(pi), m, hasctx, dl, canc}, keys: genKeys()})
		case c < 82: // completion
			if len(placed) == 0 {
				break
			}
			j := placed[g.intn(len(placed))]
			oc := g.pick([]int64{0, 0, 0, 0, 1, 2, 2, 3})
			if prop == "C07" {
				oc = g.pick([]int64{0, 1, 2, 2, 2, 2, 3})
			}
			r.apply(vpOp{kind: "D", a: []int64{int64(j), oc}, keys: genKeys()})
		case c < 90: // clock
			dt := g.pick([]int64{0, 1, 999999, 1000000, 1000001, 2000000, 50000000, 100000000, 100000001, 200000001, 400000001, 1000000000})
			r.apply(vpOp{kind: "V", a: []int64{dt}})
		case c < 94: // resolver
			if g.intn(4) == 0 {
				naddr++
			}
			ad := int64(naddr)
			if g.intn(12) == 0 {
				ad = 0
			}
			if g.intn(4) == 0 {
				r.apply(vpOp{kind: "RE"})
			} else {
				r.apply(vpOp{kind: "R", a: []int64{ad, int64(g.pick([]int64{2, 2, 2, 0, 1}))}})
			}
		case c < 96:
			r.apply(vpOp{kind: "F", a: []int64{int64(g.intn(2))}})
		case c < 98:
			if len(blocked) > 0 {
				r.apply(vpOp{kind: "X", a: []int64{int64(blocked[g.intn(len(blocked))])}})
			} else if len(r.picks) > 0 {
				r.apply(vpOp{kind: "X", a: []int64{int64(g.intn(len(r.picks)))}})
			}
		default: // make every known connection READY (keeps histories productive)
			for id := 0; id < nsc && id < 8 && !r.dead; id++ {
				r.apply(vpOp{kind: "C", a: []int64{int64(id), 2}})
			}
		}
	}
	r.finish()
}

// enumerate runs every sequence of `depth` operations drawn from a small, state-dependent alphabet
// (only operations that refer to existing connections / pickers / open calls are offered).
func (r *vpRunner) enumerate(h vpOp, depth int, count *int) {
	prelude := []vpOp{{kind: "R", a: []int64{1, 2}}, {kind: "C", a: []int64{0, 2}}}
	var prefix []vpOp
	alphabet := func() []vpOp {
		var alts []vpOp
		nsc := len(r.cc.scs)
		for id := 0; id < nsc && id < 3; id++ {
			for _, st := range []int64{2, 3} {
				alts = append(alts, vpOp{kind: "C", a: []int64{int64(id), st}})
			}
		}
		if nsc > 0 {
			alts = append(alts, vpOp{kind: "C", a: []int64{int64(nsc - 1), 4}}, vpOp{kind: "C", a: []int64{int64(nsc - 1), 1}})
		}
		if np := len(r.cc.pickers); np > 0 {
			lp := int64(np - 1)
			alts = append(alts,
				vpOp{kind: "P", a: []int64{lp, 0, 1, vpGetNow() + 1000000, 0}},
				vpOp{kind: "P", a: []int64{lp, 1, 1, -1, 0}},
				vpOp{kind: "P", a: []int64{lp, 2, 1, -1, 0}, keys: []int{1}},
				vpOp{kind: "P", a: []int64{lp, 3, 1, -1, 0}, keys: []int{1}})
			if np > 1 {
				alts = append(alts, vpOp{kind: "P", a: []int64{0, 2, 1, -1, 0}, keys: []int{1}})
			}
		}
		for _, p := range r.picks {
			if p.placed && !p.fin {
				alts = append(alts, vpOp{kind: "D", a: []int64{int64(p.id), 0}, keys: []int{1}},
					vpOp{kind: "D", a: []int64{int64(p.id), 2}})
				break
			}
		}
		alts = append(alts, vpOp{kind: "V", a: []int64{2000001}}, vpOp{kind: "R", a: []int64{2, 2}})
		return alts
	}
	replay := func(quiet bool) {
		w := r.w
		if quiet {
			r.w = bufio.NewWriter(ioutil.Discard)
		}
		r.start(h)
		for _, o := range prelude {
			r.apply(o)
		}
		for _, o := range prefix {
			r.apply(o)
		}
		r.w = w
	}
	var rec func(d int)
	rec = func(d int) {
		if d == 0 {
			replay(false)
			r.finish()
			*count++
			return
		}
		replay(true)
		alts := alphabet()
		r.finish()
		for _, a := range alts {
			prefix = append(prefix, a)
			rec(d - 1)
			prefix = prefix[:len(prefix)-1]
		}
	}
	rec(depth)
}

// ---------------------------------------------------------------- parsing
func vpParseHistories(path string) ([][]vpOp, error) {
	data, err := ioutil.ReadFile(path)
	if err != nil {
		return nil, err
	}
	var hs [][]vpOp
	for _, line := range strings.Split(string(data), "\n") {
		if i := strings.Index(line, ";"); i >= 0 {
			line = line[:i]
		}
		fs := strings.Fields(line)
		if len(fs) == 0 || strings.HasPrefix(fs[0], "#") {
			continue
		}
		var ints []int64
		for _, x := range fs[1:] {
			v, err := strconv.ParseInt(x, 10, 64)
			if err != nil {
				return nil, fmt.Errorf("%s: bad token %q", path, x)
			}
			ints = append(ints, v)
		}
		o := vpOp{kind: fs[0]}
		switch o.kind {
		case "P":
			o.a = ints[:5]
			for _, k := range ints[6 : 6+ints[5]] {
				o.keys = append(o.keys, int(k))
			}
		case "D":
			o.a = ints[:2]
			for _, k := range ints[3 : 3+ints[2]] {
				o.keys = append(o.keys, int(k))
			}
		default:
			o.a = ints
		}
		if o.kind == "H" {
			hs = append(hs, nil)
		}
		if len(hs) == 0 {
			return nil, fmt.Errorf("%s: operation before H", path)
		}
		hs[len(hs)-1] = append(hs[len(hs)-1], o)
	}
	return hs, nil
}

func vpEnvInt(name string, def int) int {
	if v := os.Getenv(name); v != "" {
		if n, err := strconv.Atoi(v); err == nil {
			return n
		}
	}
	return def
}

func TestVerifPool(t *testing.T) {
	out := os.Getenv("VERIF_OUT")
	if out == "" {
		t.Skip("VERIF_OUT not set")
	}
	grpclog.SetLoggerV2(grpclog.NewLoggerV2(ioutil.Discard, ioutil.Discard, ioutil.Discard))
	f, err := os.Create(out)
	if err != nil {
		t.Fatal(err)
	}
	defer f.Close()
	w := bufio.NewWriterSize(f, 1<<20)
	defer w.Flush()
	r := &vpRunner{w: w}
	for _, p := range strings.Split(os.Getenv("VERIF_HIST"), ":") {
		if p == "" {
			continue
		}
		paths := []string{p}
		if st, err := os.Stat(p); err == nil && st.IsDir() {
			paths, _ = filepath.Glob(filepath.Join(p, "*.hist"))
			sort.Strings(paths)
		}
		for _, q := range paths {
			hs, err := vpParseHistories(q)
			if err != nil {
				t.Fatal(err)
			}
			for _, h := range hs {
				r.runHistory(h)
			}
		}
	}
	g := &vpRng{s: uint64(vpEnvInt("VERIF_SEED", 1))}
	n := vpEnvInt("VERIF_N", 0)
	maxOps := vpEnvInt("VERIF_MAXOPS", 40)
	prop := os.Getenv("VERIF_PROP")
	// small-scope exhaustive enumeration (thorough tier): every operation sequence of the given
	// depth over a small alphabet, after a fixed prelude, for a few configurations
	if d := vpEnvInt("VERIF_ENUM_DEPTH", 0); d > 0 {
		count := 0
		for _, cfg := range [][]int64{
			{2, 3, 1, 1, 1, 1, 0, 0}, // min2 max3 wm1 fallback on, detection 1ms/1 call
			{1, 2, 1, 0, 0, 0, 1, 0}, // min1 max2 wm1 round-robin
			{2, 2, 100, 1, 1, 1, 0, 0},
		} {
			r.enumerate(vpOp{kind: "H", a: cfg}, d, &count)
		}
		fmt.Fprintf(os.Stderr, "enumerated %d histories\n", count)
	}
	for i := 0; i < n; i++ {
		r.genAndRun(g, maxOps, prop)
		if r.nstuck >= 15 {
			// every stuck call costs a watchdog period; enough evidence has been collected
			fmt.Fprintf(os.Stderr, "stopping after %d stuck calls (%d of %d histories run)\n", r.nstuck, i+1, n)
			break
		}
	}
}
