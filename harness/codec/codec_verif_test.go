//go:build verif
// +build verif

// Harness for the codec engine (property C19, package main of e2e-checksum).
// Injected with `go test -tags verif -overlay`; nothing in /repo is changed.
//
// Every case runs the real myCodec.Marshal on top of the real gRPC proto codec
// (wrapped only by a recorder that remembers what the inner codec returned, so
// that the inner encoding is known even for messages with map fields, whose
// encoding is not deterministic) and writes one line
//
//   H <kind> <args> ; OK <hex out> | ERR <hex out> <same error 0|1> ; I <inner erred 0|1> <hex inner|=> CRC <dec> RT <0|1|2> FS <n> <digest> D <0|1|2|3>
//
// kinds:  M <type> <hex>   message of a generated type (hex = its inner encoding; in a
//                          .hist file: any encoding, it is unmarshalled into <type>)
//         R <hex>          the inner codec is a stub returning exactly these bytes
//         E <name> [hex]   the inner codec fails (see errCase)
//         A <n> (<type> <hex>)*n   a SEQUENCE of n Marshal calls on one codec (type Raw = stub
//                          inner codec returning the bytes); its line is
//   H A n t1 hex1 .. ; OK <hex out_1 at return> .. <hex out_n at return> ; L x1..xn M x1..xn S x2..xn CRC c1..cn
//                          where the harness keeps the very slices the calls returned (no copy) and
//                          reads them again: L after all n calls, M after overwriting the slices the
//                          inner codec returned and the input messages, S after overwriting the
//                          outputs of the earlier calls; x = "=" if the slice still reads as it did
//                          when it was returned, else its hex now.  Outputs must be independent values.
// CRC: hash/crc32 Castagnoli of the inner bytes (independent oracle).
// RT:  1 = myCodec.Unmarshal and proto.Unmarshal of the output both give back a
//      message Equal to the original once unknown fields are discarded, and its
//      unknown fields are <first 6 bytes of the output> ++ original unknown fields;
//      3 = same, but myCodec.Unmarshal delivered the original unknown fields only
//      (it stripped the checksum field); 0 = neither; 2 = not applicable.
// FS:  number of wire-format tokens protowire sees in the output and an
//      order-sensitive digest of them (-1: output is not well-formed protobuf).
// D:   1 = the codec exactly as main() constructs it,
//      &myCodec{protoCodec: encoding.GetCodec(protoCodec.Name)}, returned the same
//      bytes; 3 = different bytes (map order) but a frame consistent with the same
//      message; 2 = n/a; 0 = inconsistent.
package main

import (
	"bufio"
	"bytes"
	"encoding/hex"
	"errors"
	"fmt"
	"hash/crc32"
	"io/ioutil"
	"log"
	"math"
	"os"
	"path/filepath"
	"sort"
	"strconv"
	"strings"
	"testing"

	dspb "google.golang.org/genproto/googleapis/datastore/v1"
	"google.golang.org/genproto/googleapis/type/latlng"
	"google.golang.org/grpc/encoding"
	grpcproto "google.golang.org/grpc/encoding/proto"
	"google.golang.org/protobuf/encoding/protowire"
	protoV2 "google.golang.org/protobuf/proto"
	"google.golang.org/protobuf/reflect/protoreflect"
	"google.golang.org/protobuf/reflect/protoregistry"
	"google.golang.org/protobuf/types/descriptorpb"
	"google.golang.org/protobuf/types/known/anypb"
	"google.golang.org/protobuf/types/known/apipb"
	"google.golang.org/protobuf/types/known/durationpb"
	"google.golang.org/protobuf/types/known/emptypb"
	"google.golang.org/protobuf/types/known/fieldmaskpb"
	"google.golang.org/protobuf/types/known/structpb"
	"google.golang.org/protobuf/types/known/timestamppb"
	"google.golang.org/protobuf/types/known/typepb"
	"google.golang.org/protobuf/types/known/wrapperspb"
)

// ---------------------------------------------------------------- PRNG
type rng struct{ s uint64 }

func (r *rng) next() uint64 {
	r.s += 0x9E3779B97F4A7C15
	z := r.s
	z = (z ^ (z >> 30)) * 0xBF58476D1CE4E5B9
	z = (z ^ (z >> 27)) * 0x94D049BB133111EB
	return z ^ (z >> 31)
}
func (r *rng) intn(n int) int {
	if n <= 0 {
		return 0
	}
	return int(r.next() % uint64(n))
}
func (r *rng) chance(pct int) bool { return r.intn(100) < pct }
func (r *rng) bytes(n int) []byte {
	b := make([]byte, n)
	for i := 0; i < n; i += 8 {
		v := r.next()
		for j := 0; j < 8 && i+j < n; j++ {
			b[i+j] = byte(v >> (8 * uint(j)))
		}
	}
	return b
}

// ---------------------------------------------------------------- message types
type mtype struct {
	name string
	mk   func() protoV2.Message
}

var mtypes = []mtype{
	{"Empty", func() protoV2.Message { return &emptypb.Empty{} }},
	{"BytesValue", func() protoV2.Message { return &wrapperspb.BytesValue{} }},
	{"StringValue", func() protoV2.Message { return &wrapperspb.StringValue{} }},
	{"Int64Value", func() protoV2.Message { return &wrapperspb.Int64Value{} }},
	{"UInt32Value", func() protoV2.Message { return &wrapperspb.UInt32Value{} }},
	{"DoubleValue", func() protoV2.Message { return &wrapperspb.DoubleValue{} }},
	{"BoolValue", func() protoV2.Message { return &wrapperspb.BoolValue{} }},
	{"Struct", func() protoV2.Message { return &structpb.Struct{} }},
	{"Value", func() protoV2.Message { return &structpb.Value{} }},
	{"ListValue", func() protoV2.Message { return &structpb.ListValue{} }},
	{"Any", func() protoV2.Message { return &anypb.Any{} }},
	{"Timestamp", func() protoV2.Message { return &timestamppb.Timestamp{} }},
	{"Duration", func() protoV2.Message { return &durationpb.Duration{} }},
	{"FieldMask", func() protoV2.Message { return &fieldmaskpb.FieldMask{} }},
	{"Type", func() protoV2.Message { return &typepb.Type{} }},
	{"Api", func() protoV2.Message { return &apipb.Api{} }},
	{"FileDescriptorProto", func() protoV2.Message { return &descriptorpb.FileDescriptorProto{} }},
	{"DescriptorProto", func() protoV2.Message { return &descriptorpb.DescriptorProto{} }},
	{"FieldOptions", func() protoV2.Message { return &descriptorpb.FieldOptions{} }},
	{"LatLng", func() protoV2.Message { return &latlng.LatLng{} }},
	{"Key", func() protoV2.Message { return &dspb.Key{} }},
	{"DsValue", func() protoV2.Message { return &dspb.Value{} }},
	{"ArrayValue", func() protoV2.Message { return &dspb.ArrayValue{} }},
	{"Entity", func() protoV2.Message { return &dspb.Entity{} }},
	{"Mutation", func() protoV2.Message { return &dspb.Mutation{} }},
	{"CommitRequest", func() protoV2.Message { return &dspb.CommitRequest{} }},
	{"CommitResponse", func() protoV2.Message { return &dspb.CommitResponse{} }},
	{"LookupRequest", func() protoV2.Message { return &dspb.LookupRequest{} }},
	{"LookupResponse", func() protoV2.Message { return &dspb.LookupResponse{} }},
	{"RunQueryRequest", func() protoV2.Message { return &dspb.RunQueryRequest{} }},
	{"RunQueryResponse", func() protoV2.Message { return &dspb.RunQueryResponse{} }},
}

func typeByName(n string) *mtype {
	for i := range mtypes {
		if mtypes[i].name == n {
			return &mtypes[i]
		}
	}
	return nil
}

// ---------------------------------------------------------------- random messages
type gen struct {
	g      *rng
	budget int // bytes still to spend on strings / bytes / elements
	hasMap bool
	hasUnk bool
	nested bool
	rep    bool
}

func (q *gen) strLen() int {
	if q.budget <= 0 {
		return 0
	}
	var n int
	switch q.g.intn(10) {
	case 0:
		n = 0
	case 1, 2, 3, 4:
		n = q.g.intn(12)
	case 5, 6, 7:
		n = q.g.intn(64)
	case 8:
		n = q.g.intn(q.budget/4 + 1)
	default:
		n = q.g.intn(q.budget + 1)
	}
	if n > q.budget {
		n = q.budget
	}
	q.budget -= n
	return n
}

var runes = []rune("abcdefghijklmnopqrstuvwxyzABCDEFGHIJKLMNOPQRSTUVWXYZ0123456789 _-/.:éü中文\U0001F600")

func (q *gen) str() string {
	n := q.strLen()
	if n > 4096 {
		// long strings: cheap ASCII filler
		b := q.g.bytes(n)
		for i := range b {
			b[i] = 32 + b[i]%95
		}
		return string(b)
	}
	var sb strings.Builder
	for sb.Len() < n {
		sb.WriteRune(runes[q.g.intn(len(runes))])
	}
	return sb.String()
}

func (q *gen) i64() int64 {
	switch q.g.intn(8) {
	case 0:
		return 0
	case 1:
		return int64(q.g.intn(128))
	case 2:
		return -int64(q.g.intn(128)) - 1
	case 3:
		return math.MaxInt64
	case 4:
		return math.MinInt64
	case 5:
		return int64(q.g.next() >> uint(q.g.intn(64)))
	default:
		return int64(q.g.next())
	}
}

func (q *gen) f64() float64 {
	switch q.g.intn(8) {
	case 0:
		return 0
	case 1:
		return math.Copysign(0, -1)
	case 2:
		return math.Inf(1)
	case 3:
		return math.MaxFloat64
	case 4:
		return math.SmallestNonzeroFloat64
	case 5:
		return float64(q.i64())
	default:
		f := math.Float64frombits(q.g.next())
		if math.IsNaN(f) { // NaN != NaN under proto.Equal; not what C19 is about
			return 1.5
		}
		return f
	}
}

func (q *gen) scalar(fd protoreflect.FieldDescriptor) protoreflect.Value {
	switch fd.Kind() {
	case protoreflect.BoolKind:
		return protoreflect.ValueOfBool(q.g.chance(50))
	case protoreflect.EnumKind:
		vs := fd.Enum().Values()
		if fd.Syntax() == protoreflect.Proto3 && q.g.chance(10) {
			return protoreflect.ValueOfEnum(protoreflect.EnumNumber(int32(q.g.intn(1000))))
		}
		return protoreflect.ValueOfEnum(vs.Get(q.g.intn(vs.Len())).Number())
	case protoreflect.Int32Kind, protoreflect.Sint32Kind, protoreflect.Sfixed32Kind:
		return protoreflect.ValueOfInt32(int32(q.i64()))
	case protoreflect.Int64Kind, protoreflect.Sint64Kind, protoreflect.Sfixed64Kind:
		return protoreflect.ValueOfInt64(q.i64())
	case protoreflect.Uint32Kind, protoreflect.Fixed32Kind:
		return protoreflect.ValueOfUint32(uint32(q.i64()))
	case protoreflect.Uint64Kind, protoreflect.Fixed64Kind:
		return protoreflect.ValueOfUint64(uint64(q.i64()))
	case protoreflect.FloatKind:
		f := float32(q.f64())
		if f != f {
			f = 2.5
		}
		return protoreflect.ValueOfFloat32(f)
	case protoreflect.DoubleKind:
		return protoreflect.ValueOfFloat64(q.f64())
	case protoreflect.StringKind:
		return protoreflect.ValueOfString(q.str())
	case protoreflect.BytesKind:
		return protoreflect.ValueOfBytes(q.g.bytes(q.strLen()))
	}
	panic("scalar kind " + fd.Kind().String())
}

func (q *gen) count() int {
	if q.budget <= 0 {
		return 0
	}
	var n int
	switch q.g.intn(8) {
	case 0, 1:
		n = 0
	case 2, 3, 4:
		n = 1 + q.g.intn(3)
	case 5, 6:
		n = q.g.intn(10)
	default:
		n = q.g.intn(q.budget/16 + 2)
	}
	if n > 3000 {
		n = 3000
	}
	return n
}

func (q *gen) fill(m protoreflect.Message, depth int, top bool) {
	fds := m.Descriptor().Fields()
	oneofDone := map[string]bool{}
	density := 20 + q.g.intn(75)
	for i := 0; i < fds.Len(); i++ {
		fd := fds.Get(i)
		if !q.g.chance(density) {
			continue
		}
		if oo := fd.ContainingOneof(); oo != nil {
			if oneofDone[string(oo.Name())] {
				continue
			}
			// choose one member of the oneof uniformly
			fd = oo.Fields().Get(q.g.intn(oo.Fields().Len()))
			oneofDone[string(oo.Name())] = true
		}
		isMsg := fd.Kind() == protoreflect.MessageKind || fd.Kind() == protoreflect.GroupKind
		if isMsg && depth <= 0 && !fd.IsMap() {
			continue
		}
		switch {
		case fd.IsMap():
			n := q.count()
			if n > 0 {
				q.hasMap = true
			}
			mp := m.Mutable(fd).Map()
			for k := 0; k < n; k++ {
				key := q.scalar(fd.MapKey()).MapKey()
				vfd := fd.MapValue()
				if vfd.Kind() == protoreflect.MessageKind {
					v := mp.NewValue()
					if depth > 0 {
						q.fill(v.Message(), depth-1, false)
					}
					mp.Set(key, v)
				} else {
					mp.Set(key, q.scalar(vfd))
				}
				q.budget -= 4
			}
		case fd.IsList():
			n := q.count()
			if n > 1 {
				q.rep = true
			}
			l := m.Mutable(fd).List()
			for k := 0; k < n; k++ {
				if isMsg {
					q.nested = true
					q.fill(l.AppendMutable().Message(), depth-1, false)
				} else {
					l.Append(q.scalar(fd))
				}
				q.budget -= 2
			}
		case isMsg:
			q.nested = true
			q.fill(m.Mutable(fd).Message(), depth-1, false)
		default:
			m.Set(fd, q.scalar(fd))
		}
	}
	pct := 8
	if top {
		pct = 30
	}
	if q.g.chance(pct) {
		m.SetUnknown(q.unknown(m.Descriptor()))
		if len(m.GetUnknown()) > 0 {
			q.hasUnk = true
		}
	}
}

// raw fields whose numbers the message type does not declare
func (q *gen) unknown(md protoreflect.MessageDescriptor) []byte {
	var b []byte
	n := 1 + q.g.intn(4)
	for i := 0; i < n; i++ {
		b = q.rawField(b, md, 2)
	}
	return b
}

func (q *gen) fieldNumber(md protoreflect.MessageDescriptor) protowire.Number {
	for {
		var num int
		switch q.g.intn(6) {
		case 0:
			num = checksumField // a message that already carries a field 2047
		case 1:
			num = 1 + q.g.intn(15)
		case 2:
			num = 16 + q.g.intn(2032)
		case 3:
			num = 2046 + q.g.intn(3)
		case 4:
			num = (1 << 29) - 1 - q.g.intn(3)
		default:
			num = 1 + q.g.intn((1<<29)-1)
		}
		if md == nil {
			return protowire.Number(num)
		}
		// not a declared field and not a registered extension of the type (the
		// module links google.api.field_behavior = 1052 etc., which extend
		// descriptor options): such bytes would not be *unknown* fields
		if md.Fields().ByNumber(protowire.Number(num)) != nil {
			continue
		}
		if _, err := protoregistry.GlobalTypes.FindExtensionByNumber(md.FullName(), protowire.Number(num)); err == nil {
			continue
		}
		return protowire.Number(num)
	}
}

func (q *gen) rawField(b []byte, md protoreflect.MessageDescriptor, depth int) []byte {
	num := q.fieldNumber(md)
	k := q.g.intn(5)
	if k == 4 && depth <= 0 {
		k = 0
	}
	switch k {
	case 0:
		b = protowire.AppendTag(b, num, protowire.VarintType)
		b = protowire.AppendVarint(b, uint64(q.i64()))
	case 1:
		b = protowire.AppendTag(b, num, protowire.Fixed64Type)
		b = protowire.AppendFixed64(b, q.g.next())
	case 2:
		b = protowire.AppendTag(b, num, protowire.BytesType)
		b = protowire.AppendBytes(b, q.g.bytes(q.strLen()))
	case 3:
		b = protowire.AppendTag(b, num, protowire.Fixed32Type)
		b = protowire.AppendFixed32(b, uint32(q.g.next()))
	default:
		b = protowire.AppendTag(b, num, protowire.StartGroupType)
		for i, n := 0, q.g.intn(3); i < n; i++ {
			b = q.rawField(b, nil, depth-1)
		}
		b = protowire.AppendTag(b, num, protowire.EndGroupType)
	}
	return b
}

// ---------------------------------------------------------------- codecs
// recorder remembers what the inner codec returned
type recorder struct {
	inner encoding.Codec
	b     []byte
	err   error
	calls int
}

func (r *recorder) Marshal(v interface{}) ([]byte, error) {
	b, err := r.inner.Marshal(v)
	r.calls++
	r.b = append([]byte(nil), b...)
	r.err = err
	return b, err
}
func (r *recorder) Unmarshal(data []byte, v interface{}) error { return r.inner.Unmarshal(data, v) }
func (r *recorder) String() string                              { return "recorder" }
func (r *recorder) Name() string                                { return "recorder" }

// stub returns fixed bytes and a fixed error
type stub struct {
	b   []byte
	err error
}

func (s *stub) Marshal(v interface{}) ([]byte, error)       { return s.b, s.err }
func (s *stub) Unmarshal(data []byte, v interface{}) error { return errors.New("stub") }
func (s *stub) String() string                              { return "stub" }
func (s *stub) Name() string                                { return "stub" }

var errStub = errors.New("stub marshal error")

func realInner() encoding.Codec { return encoding.GetCodec(grpcproto.Name) }

// ---------------------------------------------------------------- wire-format tokens (protowire)
const maxFieldNumber = (1 << 29) - 1

func digestStep(h uint64, num protowire.Number, wt uint64, x uint64) uint64 {
	return (h*1000003 + uint64(num)*8 + wt + x) % 2147483647
}

// flat token sequence of b as a conforming parser reads it; n = -1 if malformed.
// protowire itself accepts field numbers up to 2^31-1; the wire-format
// specification (and the model) stop at 2^29-1: tokensBigNum is set when that
// was the reason for rejecting.
var tokensBigNum bool

func tokens(b []byte) (n int, h uint64) {
	var stack []protowire.Number
	tokensBigNum = false
	for len(b) > 0 {
		num, typ, k := protowire.ConsumeTag(b)
		if k >= 0 && num > maxFieldNumber {
			tokensBigNum = true
			return -1, 0
		}
		if k < 0 {
			return -1, 0
		}
		b = b[k:]
		switch typ {
		case protowire.VarintType:
			v, k := protowire.ConsumeVarint(b)
			if k < 0 {
				return -1, 0
			}
			b = b[k:]
			h = digestStep(h, num, 0, v%1000003)
		case protowire.Fixed64Type:
			v, k := protowire.ConsumeFixed64(b)
			if k < 0 {
				return -1, 0
			}
			b = b[k:]
			h = digestStep(h, num, 1, v%1000003)
		case protowire.BytesType:
			v, k := protowire.ConsumeBytes(b)
			if k < 0 {
				return -1, 0
			}
			b = b[k:]
			h = digestStep(h, num, 2, uint64(len(v)))
		case protowire.Fixed32Type:
			v, k := protowire.ConsumeFixed32(b)
			if k < 0 {
				return -1, 0
			}
			b = b[k:]
			h = digestStep(h, num, 5, uint64(v)%1000003)
		case protowire.StartGroupType:
			stack = append(stack, num)
			h = digestStep(h, num, 3, 0)
		case protowire.EndGroupType:
			if len(stack) == 0 || stack[len(stack)-1] != num {
				return -1, 0
			}
			stack = stack[:len(stack)-1]
			h = digestStep(h, num, 4, 0)
		default:
			return -1, 0
		}
		n++
	}
	if len(stack) != 0 {
		return -1, 0
	}
	return n, h
}

// the same question asked of protowire.ConsumeField (which handles groups itself)
func wellFormed(b []byte) bool {
	for len(b) > 0 {
		_, _, k := protowire.ConsumeField(b)
		if k < 0 {
			return false
		}
		b = b[k:]
	}
	return true
}

// ---------------------------------------------------------------- running one case
type stats struct {
	kinds, types, sizes, feats, outcomes map[string]int
}

func newStats() *stats {
	return &stats{map[string]int{}, map[string]int{}, map[string]int{}, map[string]int{}, map[string]int{}}
}

func sizeClass(n int) string {
	switch {
	case n == 0:
		return "0"
	case n <= 16:
		return "1-16"
	case n <= 256:
		return "17-256"
	case n <= 4096:
		return "257-4K"
	case n <= 65536:
		return "4K-64K"
	default:
		return ">64K"
	}
}

func hx(b []byte) string {
	if len(b) == 0 {
		return "-"
	}
	return hex.EncodeToString(b)
}

func unhx(s string) ([]byte, error) {
	if s == "-" || s == "" {
		return nil, nil
	}
	return hex.DecodeString(s)
}

func sameErr(a, b error) (same bool) {
	defer func() {
		if recover() != nil {
			same = false
		}
	}()
	return a == b
}

func b2i(b bool) int {
	if b {
		return 1
	}
	return 0
}

type runner struct {
	w  *bufio.Writer
	st *stats
}

// decode `out` both ways and compare with the original: 1 = both myCodec.Unmarshal
// and proto.Unmarshal give a message whose known fields Equal the original's and
// whose unknown fields are <first 6 bytes of out> ++ original unknown fields;
// 3 = same, except that myCodec.Unmarshal delivered exactly the original unknown
// fields (a codec that strips the checksum field); 0 = anything else.
// (No proto.Clone here: Clone/Merge of protobuf-go 1.30 drops a proto3 double
// field holding -0.0.)
func roundTrip(mc *myCodec, orig protoV2.Message, out []byte) int {
	if len(out) < 6 {
		return 0
	}
	origUnknown := append([]byte(nil), orig.ProtoReflect().GetUnknown()...)
	wantUnknown := append(append([]byte(nil), out[:6]...), origUnknown...)
	orig.ProtoReflect().SetUnknown(nil)
	defer orig.ProtoReflect().SetUnknown(origUnknown)
	res := 1
	for pass := 0; pass < 2; pass++ {
		fresh := orig.ProtoReflect().New().Interface()
		var err error
		if pass == 0 {
			err = mc.Unmarshal(out, fresh)
		} else {
			err = protoV2.UnmarshalOptions{AllowPartial: true}.Unmarshal(out, fresh)
		}
		if err != nil {
			return 0
		}
		got := fresh.ProtoReflect().GetUnknown()
		if !bytes.Equal(got, wantUnknown) {
			if pass == 0 && bytes.Equal(got, origUnknown) {
				res = 3
			} else {
				return 0
			}
		}
		fresh.ProtoReflect().SetUnknown(nil)
		if !protoV2.Equal(orig, fresh) {
			return 0
		}
	}
	return res
}

// run v through myCodec over `inner`; msg != nil enables the round-trip and direct
// checks.  Returns the output token, the hex of what the inner codec returned and
// the observation tokens after it.
func (r *runner) exec(inner encoding.Codec, v interface{}, msg protoV2.Message) (outTok, innerHex string, innerErr int, obs string) {
	rec := &recorder{inner: inner}
	mc := &myCodec{protoCodec: rec}
	out, err := mc.Marshal(v)
	if rec.calls != 1 {
		r.st.outcomes["inner-called-"+strconv.Itoa(rec.calls)]++
	}
	if err == nil {
		outTok = "OK " + hx(out)
	} else {
		outTok = fmt.Sprintf("ERR %s %d", hx(out), b2i(sameErr(err, rec.err)))
	}
	crc := crc32.Checksum(rec.b, crc32.MakeTable(crc32.Castagnoli))
	rt, d := 2, 2
	if msg != nil {
		// the codec exactly as main() builds it
		direct := &myCodec{protoCodec: realInner()}
		out2, err2 := direct.Marshal(v)
		switch {
		case (err == nil) != (err2 == nil):
			d = 0
		case err != nil:
			d = 1
		case bytes.Equal(out, out2):
			d = 1
		default:
			d = 0
			if len(out2) >= 6 && len(out2) == len(out) && bytes.Equal(out2[:2], out[:2]) {
				c := crc32.Checksum(out2[6:], crc32.MakeTable(crc32.Castagnoli))
				fresh := msg.ProtoReflect().New().Interface()
				if out2[2] == byte(c) && out2[3] == byte(c>>8) && out2[4] == byte(c>>16) && out2[5] == byte(c>>24) &&
					protoV2.Unmarshal(out2[6:], fresh) == nil && protoV2.Equal(fresh, msg) {
					d = 3
				}
			}
		}
		if err == nil && rec.err == nil {
			rt = roundTrip(mc, msg, out)
		}
	}
	fsN, fsH := -1, uint64(0)
	if err == nil {
		fsN, fsH = tokens(out)
		if (fsN >= 0) != wellFormed(out) && !tokensBigNum {
			fsN = -2 // the two readings of protowire disagree: must not happen
		}
		if tokensBigNum {
			r.st.outcomes["field-number-above-2^29-1"]++
		}
	}
	r.st.sizes[sizeClass(len(rec.b))]++
	if err != nil {
		r.st.outcomes["error"]++
	} else {
		r.st.outcomes["ok"]++
		if fsN == -1 {
			r.st.outcomes["ok-output-not-wellformed-protobuf"]++
		}
	}
	if rt == 1 || rt == 3 {
		r.st.outcomes["roundtrip-checked"]++
	}
	if d == 3 {
		r.st.outcomes["direct-differs-by-map-order"]++
	}
	return outTok, hx(rec.b), b2i(rec.err != nil), fmt.Sprintf("CRC %d RT %d FS %d %d D %d", crc, rt, fsN, fsH, d)
}

// M: the op carries the inner encoding that was actually produced in this run
func (r *runner) runMessage(tname string, msg protoV2.Message) {
	r.st.kinds["M"]++
	r.st.types[tname]++
	outTok, innerHex, ie, obs := r.exec(realInner(), msg, msg)
	fmt.Fprintf(r.w, "H M %s %s ; %s ; I %d = %s\n", tname, innerHex, outTok, ie, obs)
}

// R: the inner codec is a stub returning exactly b
func (r *runner) runRaw(b []byte) {
	r.st.kinds["R"]++
	outTok, innerHex, ie, obs := r.exec(&stub{b: b}, "ignored", nil)
	fmt.Fprintf(r.w, "H R %s ; %s ; I %d %s %s\n", hx(b), outTok, ie, innerHex, obs)
}

// E: the inner codec fails
func (r *runner) runErr(name string, arg []byte) bool {
	var inner encoding.Codec = realInner()
	var v interface{}
	op := "H E " + name
	switch name {
	case "nonproto":
		v = "not a proto.Message"
	case "nonproto-struct":
		v = struct{ A int }{7}
	case "nil":
		v = nil
	case "nilmsg":
		v = (*wrapperspb.StringValue)(nil)
	case "utf8":
		v = &wrapperspb.StringValue{Value: "ab\xff"}
	case "required":
		// proto2 message with a required field missing: the inner codec returns
		// the partial encoding together with an error
		v = &descriptorpb.UninterpretedOption_NamePart{NamePart: protoV2.String("abc")}
	case "required-nested":
		v = &descriptorpb.UninterpretedOption{
			Name:            []*descriptorpb.UninterpretedOption_NamePart{{IsExtension: protoV2.Bool(true)}},
			IdentifierValue: protoV2.String("x")}
	case "stub":
		inner, v, op = &stub{b: arg, err: errStub}, "ignored", op+" "+hx(arg)
	case "stubnil":
		inner, v = &stub{b: nil, err: errStub}, "ignored"
	default:
		return false
	}
	r.st.kinds["E:"+name]++
	outTok, innerHex, ie, obs := r.exec(inner, v, nil)
	fmt.Fprintf(r.w, "%s ; %s ; I %d %s %s\n", op, outTok, ie, innerHex, obs)
	return true
}

// ---------------------------------------------------------------- sequences (kind A)
type seqItem struct {
	tname string
	msg   protoV2.Message // nil for Raw
	raw   []byte
}

// seqRecorder: inner codec switchable per call; remembers, per call, a copy of
// what the inner codec returned AND the returned slice itself
type seqRecorder struct {
	inner  encoding.Codec
	copies [][]byte
	raws   [][]byte
	errs   []error
}

func (r *seqRecorder) Marshal(v interface{}) ([]byte, error) {
	b, err := r.inner.Marshal(v)
	r.copies = append(r.copies, append([]byte(nil), b...))
	r.raws = append(r.raws, b)
	r.errs = append(r.errs, err)
	return b, err
}
func (r *seqRecorder) Unmarshal(data []byte, v interface{}) error { return r.inner.Unmarshal(data, v) }
func (r *seqRecorder) String() string                              { return "seqRecorder" }
func (r *seqRecorder) Name() string                                { return "seqRecorder" }

// overwrite, in place, every bytes field reachable from m, then clear m
func scribbleMessage(m protoreflect.Message, depth int) {
	m.Range(func(fd protoreflect.FieldDescriptor, v protoreflect.Value) bool {
		switch {
		case fd.IsMap():
			return true
		case fd.IsList():
			l := v.List()
			for i := 0; i < l.Len(); i++ {
				if fd.Kind() == protoreflect.BytesKind {
					b := l.Get(i).Bytes()
					for j := range b {
						b[j] ^= 0xFF
					}
				} else if fd.Kind() == protoreflect.MessageKind && depth > 0 {
					scribbleMessage(l.Get(i).Message(), depth-1)
				}
			}
		case fd.Kind() == protoreflect.BytesKind:
			b := v.Bytes()
			for j := range b {
				b[j] ^= 0xFF
			}
		case fd.Kind() == protoreflect.MessageKind && depth > 0:
			scribbleMessage(v.Message(), depth-1)
		}
		return true
	})
	u := m.GetUnknown()
	for j := range u {
		u[j] ^= 0xFF
	}
}

func reread(kept [][]byte, atRet []string, from int) string {
	var sb strings.Builder
	for i := from; i < len(kept); i++ {
		if h := hx(kept[i]); h == atRet[i] {
			sb.WriteString(" =")
		} else {
			sb.WriteString(" " + h)
		}
	}
	return sb.String()
}

func (r *runner) runSeq(items []seqItem) {
	r.st.kinds["A"]++
	n := len(items)
	rec := &seqRecorder{}
	mc := &myCodec{protoCodec: rec} // one codec for the whole sequence, as in production
	kept := make([][]byte, n)       // the returned slices themselves, not copies
	atRet := make([]string, n)
	var op, outTok, crcTok strings.Builder
	fmt.Fprintf(&op, "H A %d", n)
	outTok.WriteString("OK")
	small := 0
	for i, it := range items {
		var v interface{} = "ignored"
		if it.msg != nil {
			rec.inner, v = realInner(), it.msg
		} else {
			rec.inner = &stub{b: it.raw}
		}
		out, err := mc.Marshal(v)
		kept[i] = out
		atRet[i] = hx(out)
		if err != nil {
			outTok.WriteString(" !" + atRet[i])
		} else {
			outTok.WriteString(" " + atRet[i])
		}
		inner := []byte(nil)
		if len(rec.copies) > i {
			inner = rec.copies[i]
		}
		if len(inner) <= 58 {
			small++
		}
		fmt.Fprintf(&op, " %s %s", it.tname, hx(inner))
		fmt.Fprintf(&crcTok, " %d", crc32.Checksum(inner, crc32.MakeTable(crc32.Castagnoli)))
		r.st.sizes[sizeClass(len(inner))]++
	}
	if small == n {
		r.st.feats["A:all-inner<=58"]++
	} else if small > 0 {
		r.st.feats["A:some-inner<=58"]++
	}
	// (a) after the later calls
	l := reread(kept, atRet, 0)
	// (b) after overwriting what the inner codec returned and the input messages
	for i, it := range items {
		if i < len(rec.raws) && (i >= len(rec.errs) || rec.errs[i] == nil) {
			b := rec.raws[i]
			for j := range b {
				b[j] ^= 0xFF
			}
		}
		if it.msg != nil {
			scribbleMessage(it.msg.ProtoReflect(), 4)
			protoV2.Reset(it.msg)
		}
	}
	m := reread(kept, atRet, 0)
	// (c) output j after overwriting the outputs of all earlier calls i < j
	sOut := ""
	for j := 1; j < n; j++ {
		for k := range kept[j-1] {
			kept[j-1][k] = 0xAA
		}
		if h := hx(kept[j]); h == atRet[j] {
			sOut += " ="
		} else {
			sOut += " " + h
		}
	}
	if strings.Trim(l+m+sOut, " =") != "" {
		r.st.outcomes["A:output-changed-later"]++
	}
	fmt.Fprintf(r.w, "%s ; %s ; L%s M%s S%s CRC%s\n", op.String(), outTok.String(), l, m, sOut, crcTok.String())
}

var seqRawLens = []int{0, 1, 2, 10, 30, 52, 57, 58, 59, 60, 64, 100, 200}

func (r *runner) randomSeq(g *rng) {
	n := 2 + g.intn(2)
	items := make([]seqItem, n)
	for i := range items {
		if g.chance(30) {
			items[i] = seqItem{tname: "Raw", raw: g.bytes(seqRawLens[g.intn(len(seqRawLens))])}
			continue
		}
		budget := g.intn(40) // keeps most inner encodings <= 58 bytes
		if g.chance(25) {
			budget = g.intn(400)
		}
		t := &mtypes[g.intn(len(mtypes))]
		msg := t.mk()
		q := &gen{g: g, budget: budget}
		q.fill(msg.ProtoReflect(), 1+g.intn(3), true)
		if protoV2.CheckInitialized(msg) != nil { // proto2 required field missing: the inner codec would fail
			items[i] = seqItem{tname: "Raw", raw: g.bytes(g.intn(59))}
			continue
		}
		items[i] = seqItem{tname: t.name, msg: msg}
	}
	r.runSeq(items)
}

var errNames = []string{"nonproto", "nonproto-struct", "nil", "nilmsg", "utf8", "required", "required-nested", "stub", "stubnil"}

// ---------------------------------------------------------------- generators
func (r *runner) budget(g *rng, maxLen, hugePPM int) int {
	x := g.intn(1000000)
	switch {
	case x < hugePPM:
		return maxLen/2 + g.intn(maxLen/2+1)
	case x < 600000:
		return g.intn(64)
	case x < 900000:
		return g.intn(1024)
	case x < 990000:
		return g.intn(8192)
	default:
		if maxLen > 65536 {
			return g.intn(65536)
		}
		return g.intn(maxLen + 1)
	}
}

func (r *runner) randomMessage(g *rng, budget int) {
	t := &mtypes[g.intn(len(mtypes))]
	// large budgets go to types that can hold them
	if budget > 20000 && g.chance(70) {
		t = typeByName([]string{"BytesValue", "StringValue", "Entity", "CommitRequest", "Struct", "Any", "Empty", "FileDescriptorProto"}[g.intn(8)])
	}
	msg := t.mk()
	q := &gen{g: g, budget: budget}
	switch g.intn(25) {
	case 0: // empty message
	case 1, 2: // only unknown fields
		msg.ProtoReflect().SetUnknown(q.unknown(msg.ProtoReflect().Descriptor()))
		q.hasUnk = true
	default:
		q.fill(msg.ProtoReflect(), 1+g.intn(4), true)
	}
	if q.hasMap {
		r.st.feats["map"]++
	}
	if q.hasUnk {
		r.st.feats["unknown-fields"]++
	}
	if q.nested {
		r.st.feats["nested"]++
	}
	if q.rep {
		r.st.feats["repeated"]++
	}
	r.runMessage(t.name, msg)
}

func (r *runner) randomRaw(g *rng, budget int) {
	q := &gen{g: g, budget: budget}
	var b []byte
	switch g.intn(4) {
	case 0: // arbitrary bytes
		n := g.intn(40)
		if g.chance(10) {
			n = g.intn(budget + 1)
		}
		b = g.bytes(n)
	default: // well-formed token sequence, sometimes damaged
		for i, n := 0, g.intn(6); i < n; i++ {
			b = q.rawField(b, nil, 3)
		}
		if len(b) > 0 && g.chance(35) {
			switch g.intn(3) {
			case 0:
				b = b[:g.intn(len(b))]
			case 1:
				b[g.intn(len(b))] ^= byte(1 << uint(g.intn(8)))
			default:
				b = append(b, g.bytes(1+g.intn(3))...)
			}
		}
	}
	r.runRaw(b)
}

// ---------------------------------------------------------------- history files
func (r *runner) runHistLine(line string) error {
	op := strings.TrimSpace(strings.SplitN(line, ";", 2)[0])
	t := strings.Fields(op)
	if len(t) < 2 || t[0] != "H" {
		return fmt.Errorf("bad history line %q", line)
	}
	switch t[1] {
	case "M":
		if len(t) != 4 {
			return fmt.Errorf("bad M line %q", line)
		}
		mt := typeByName(t[2])
		if mt == nil {
			return fmt.Errorf("unknown message type %q", t[2])
		}
		b, err := unhx(t[3])
		if err != nil {
			return err
		}
		msg := mt.mk()
		if err := (protoV2.UnmarshalOptions{AllowPartial: true}).Unmarshal(b, msg); err != nil {
			return fmt.Errorf("history line %q: %v", line, err)
		}
		r.runMessage(mt.name, msg)
	case "R":
		if len(t) != 3 {
			return fmt.Errorf("bad R line %q", line)
		}
		b, err := unhx(t[2])
		if err != nil {
			return err
		}
		r.runRaw(b)
	case "A":
		if len(t) < 3 {
			return fmt.Errorf("bad A line %q", line)
		}
		n, err := strconv.Atoi(t[2])
		if err != nil || n < 1 || len(t) != 3+2*n {
			return fmt.Errorf("bad A line %q", line)
		}
		items := make([]seqItem, n)
		for i := 0; i < n; i++ {
			tn, h := t[3+2*i], t[4+2*i]
			b, err := unhx(h)
			if err != nil {
				return err
			}
			if tn == "Raw" {
				items[i] = seqItem{tname: "Raw", raw: b}
				continue
			}
			mt := typeByName(tn)
			if mt == nil {
				return fmt.Errorf("unknown message type %q", tn)
			}
			msg := mt.mk()
			if err := (protoV2.UnmarshalOptions{AllowPartial: true}).Unmarshal(b, msg); err != nil {
				return fmt.Errorf("history line %q: %v", line, err)
			}
			items[i] = seqItem{tname: mt.name, msg: msg}
		}
		r.runSeq(items)
	case "E":
		var arg []byte
		if len(t) >= 4 {
			b, err := unhx(t[3])
			if err != nil {
				return err
			}
			arg = b
		}
		if len(t) < 3 || !r.runErr(t[2], arg) {
			return fmt.Errorf("bad E line %q", line)
		}
	default:
		return fmt.Errorf("bad history kind %q", line)
	}
	return nil
}

func histFiles(spec string) []string {
	var files []string
	for _, p := range strings.Split(spec, ":") {
		if p == "" {
			continue
		}
		if fi, err := os.Stat(p); err == nil && fi.IsDir() {
			m, _ := filepath.Glob(filepath.Join(p, "*.hist"))
			sort.Strings(m)
			files = append(files, m...)
		} else {
			files = append(files, p)
		}
	}
	return files
}

func envInt(name string, def int) int {
	if v := os.Getenv(name); v != "" {
		if n, err := strconv.Atoi(v); err == nil {
			return n
		}
	}
	return def
}

func fmtMap(m map[string]int) string {
	var ks []string
	for k := range m {
		ks = append(ks, k)
	}
	sort.Strings(ks)
	var sb strings.Builder
	for i, k := range ks {
		if i > 0 {
			sb.WriteString(" ")
		}
		fmt.Fprintf(&sb, "%s=%d", k, m[k])
	}
	return sb.String()
}

// how many message types linked into this binary declare a field (or have a
// registered extension) with the checksum's field number?  For such a type the
// checksum would not be an *unknown* field.
func scanRegistry() (types, declaring, extensions int) {
	var walk func(mds protoreflect.MessageDescriptors)
	walk = func(mds protoreflect.MessageDescriptors) {
		for i := 0; i < mds.Len(); i++ {
			md := mds.Get(i)
			types++
			if md.Fields().ByNumber(checksumField) != nil {
				declaring++
			}
			walk(md.Messages())
		}
	}
	protoregistry.GlobalFiles.RangeFiles(func(fd protoreflect.FileDescriptor) bool {
		walk(fd.Messages())
		return true
	})
	protoregistry.GlobalTypes.RangeExtensions(func(xt protoreflect.ExtensionType) bool {
		if xt.TypeDescriptor().Number() == checksumField {
			extensions++
		}
		return true
	})
	return
}

func TestVerifCodec(t *testing.T) {
	out := os.Getenv("VERIF_OUT")
	if out == "" {
		t.Skip("VERIF_OUT not set")
	}
	log.SetOutput(ioutil.Discard) // Marshal logs every message it encodes
	f, err := os.Create(out)
	if err != nil {
		t.Fatal(err)
	}
	defer f.Close()
	w := bufio.NewWriterSize(f, 1<<20)
	defer w.Flush()
	r := &runner{w: w, st: newStats()}

	for _, p := range histFiles(os.Getenv("VERIF_HIST")) {
		hf, err := os.Open(p)
		if err != nil {
			t.Fatalf("history file: %v", err)
		}
		sc := bufio.NewScanner(hf)
		sc.Buffer(make([]byte, 1<<20), 1<<28)
		for sc.Scan() {
			line := strings.TrimSpace(sc.Text())
			if line == "" || strings.HasPrefix(line, "#") {
				continue
			}
			if err := r.runHistLine(line); err != nil {
				t.Fatalf("%s: %v", p, err)
			}
		}
		if err := sc.Err(); err != nil {
			t.Fatalf("%s: %v", p, err)
		}
		hf.Close()
	}

	g := &rng{s: uint64(envInt("VERIF_SEED", 1))}
	n := envInt("VERIF_N", 0)
	maxLen := envInt("VERIF_MAXLEN", 65536)
	huge := envInt("VERIF_HUGE", 4) // expected number of cases near VERIF_MAXLEN
	hugePPM := 0
	if n > 0 {
		hugePPM = huge * 1000000 / n
		if hugePPM > 20000 {
			hugePPM = 20000
		}
	}
	for i := 0; i < n; i++ {
		b := r.budget(g, maxLen, hugePPM)
		switch x := g.intn(100); {
		case x < 70:
			r.randomMessage(g, b)
		case x < 82:
			r.randomSeq(g)
		case x < 92:
			r.randomRaw(g, b)
		default:
			name := errNames[g.intn(len(errNames))]
			var arg []byte
			if name == "stub" {
				arg = g.bytes(g.intn(40))
			}
			r.runErr(name, arg)
		}
	}
	nt, nd, nx := scanRegistry()
	r.st.outcomes[fmt.Sprintf("registry:message-types=%d,declaring-field-%d=%d,extensions-numbered-%d", nt, checksumField, nd, checksumField)] = nx
	dist := fmt.Sprintf("kinds: %s | types: %s | inner sizes: %s | features: %s | outcomes: %s",
		fmtMap(r.st.kinds), fmtMap(r.st.types), fmtMap(r.st.sizes), fmtMap(r.st.feats), fmtMap(r.st.outcomes))
	fmt.Fprintln(os.Stderr, dist)
	ioutil.WriteFile(out+".dist", []byte(dist+"\n"), 0644)
}
