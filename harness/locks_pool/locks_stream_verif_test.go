//go:build verif
// +build verif

// Race-stress workload for C10 (stream interceptor group): one sender and one receiver
// goroutine per gcpClientStream (the concurrency gRPC allows), with a streamer that
// fails a few times before it succeeds, so that SendMsg is retried while RecvMsg waits.
package grpcgcp

import (
	"context"
	"errors"
	"sync"
	"sync/atomic"
	"testing"
	"time"

	"google.golang.org/grpc"
	"google.golang.org/grpc/metadata"
)

type vlFakeStream struct {
	n int32
}

func (s *vlFakeStream) Header() (metadata.MD, error) { return nil, nil }
func (s *vlFakeStream) Trailer() metadata.MD         { return nil }
func (s *vlFakeStream) CloseSend() error             { return nil }
func (s *vlFakeStream) Context() context.Context     { return context.Background() }
func (s *vlFakeStream) SendMsg(m interface{}) error  { atomic.AddInt32(&s.n, 1); return nil }
func (s *vlFakeStream) RecvMsg(m interface{}) error  { atomic.AddInt32(&s.n, 1); return nil }

func TestVerifLocksStream(t *testing.T) {
	ms := vlEnvInt("VERIF_MS", 2000)
	deadline := time.Now().Add(time.Duration(ms) * time.Millisecond)
	iter := 0
	for time.Now().Before(deadline) {
		iter++
		var fails int32 = int32(iter % 4)
		streamer := func(ctx context.Context, desc *grpc.StreamDesc, cc *grpc.ClientConn, method string, opts ...grpc.CallOption) (grpc.ClientStream, error) {
			if atomic.AddInt32(&fails, -1) >= 0 {
				return nil, errors.New("no connection yet")
			}
			return &vlFakeStream{}, nil
		}
		csi, err := GCPStreamClientInterceptor(context.Background(), &grpc.StreamDesc{}, nil, "/s/m", streamer)
		if err != nil {
			t.Fatal(err)
		}
		var wg sync.WaitGroup
		wg.Add(2)
		go func() {
			defer wg.Done()
			for i := 0; i < 8; i++ {
				_ = csi.SendMsg(&vlMsg{Key: "k"})
			}
		}()
		go func() {
			defer wg.Done()
			for i := 0; i < 8; i++ {
				_ = csi.RecvMsg(&vlMsg{})
			}
		}()
		wg.Wait()
	}
}
