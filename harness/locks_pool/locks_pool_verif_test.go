//go:build verif
// +build verif

// Race-stress workload for C10 (pool group): many goroutines doing Pick/Done with
// refresh + fallback + round-robin enabled, concurrently with SERIALIZED balancer
// callbacks (one driver goroutine), the way gRPC drives a balancer.  Only meaningful
// under `go test -race`; the failing-input search of tools/eng_locks.py runs it when a
// row of the lock table fails.  Knobs: VERIF_MS (duration), VERIF_SEED, VERIF_WORKERS.
package grpcgcp

import (
	"context"
	"io/ioutil"
	"os"
	"strconv"
	"sync"
	"sync/atomic"
	"testing"
	"time"

	"google.golang.org/grpc/balancer"
	"google.golang.org/grpc/connectivity"
	"google.golang.org/grpc/grpclog"
	"google.golang.org/grpc/resolver"

	pb "github.com/GoogleCloudPlatform/grpc-gcp-go/grpcgcp/grpc_gcp"
)

type vlRng struct{ s uint64 }

func (r *vlRng) next() uint64 {
	r.s += 0x9e3779b97f4a7c15
	z := r.s
	z = (z ^ (z >> 30)) * 0xbf58476d1ce4e5b9
	z = (z ^ (z >> 27)) * 0x94d049bb133111eb
	return z ^ (z >> 31)
}
func (r *vlRng) intn(n int) int { return int(r.next() % uint64(n)) }

type vlSC struct {
	balancer.SubConn
	id int
}

func (sc *vlSC) UpdateAddresses(a []resolver.Address) {}
func (sc *vlSC) Connect()                             {}
func (sc *vlSC) GetOrBuildProducer(balancer.ProducerBuilder) (balancer.Producer, func()) {
	return nil, func() {}
}

// vlCC is the fake ClientConn. Like gRPC it may be called from any goroutine and never
// calls back into the balancer synchronously; new SubConns are queued for the driver.
type vlCC struct {
	mu      sync.Mutex
	nextID  int
	fresh   []*vlSC
	removed []*vlSC
	picker  atomic.Value // balancer.Picker
}

func (cc *vlCC) NewSubConn(a []resolver.Address, o balancer.NewSubConnOptions) (balancer.SubConn, error) {
	cc.mu.Lock()
	defer cc.mu.Unlock()
	cc.nextID++
	sc := &vlSC{id: cc.nextID}
	cc.fresh = append(cc.fresh, sc)
	return sc, nil
}
func (cc *vlCC) RemoveSubConn(sc balancer.SubConn) {
	cc.mu.Lock()
	cc.removed = append(cc.removed, sc.(*vlSC))
	cc.mu.Unlock()
}
func (cc *vlCC) UpdateAddresses(sc balancer.SubConn, a []resolver.Address) {}
func (cc *vlCC) UpdateState(st balancer.State)                            { cc.picker.Store(&st) }
func (cc *vlCC) ResolveNow(resolver.ResolveNowOptions)                    {}
func (cc *vlCC) Target() string                                           { return "fake" }

func (cc *vlCC) take() (fresh, removed []*vlSC) {
	cc.mu.Lock()
	fresh, removed = cc.fresh, cc.removed
	cc.fresh, cc.removed = nil, nil
	cc.mu.Unlock()
	return
}

type vlMsg struct {
	Key string
}

func vlEnvInt(name string, def int) int {
	if v, err := strconv.Atoi(os.Getenv(name)); err == nil {
		return v
	}
	return def
}

func vlMethod(names []string, cmd pb.AffinityConfig_Command) *pb.MethodConfig {
	return &pb.MethodConfig{Name: names, Affinity: &pb.AffinityConfig{Command: cmd, AffinityKey: "key"}}
}

func TestVerifLocksPool(t *testing.T) {
	// verbosity 100: the FINE/FINEST log statements (which read shared fields) are executed, output discarded
	grpclog.SetLoggerV2(grpclog.NewLoggerV2WithVerbosity(ioutil.Discard, ioutil.Discard, ioutil.Discard, 100))
	ms := vlEnvInt("VERIF_MS", 4000)
	seed := uint64(vlEnvInt("VERIF_SEED", 1))
	workers := vlEnvInt("VERIF_WORKERS", 12)
	rounds := 1 + ms/600
	for r := 0; r < rounds; r++ {
		vlPoolRound(t, seed+uint64(r)*7919, workers, time.Duration(ms/rounds)*time.Millisecond, r)
	}
}

func vlPoolRound(t *testing.T, seed uint64, workers int, dur time.Duration, round int) {
	cc := &vlCC{}
	gb := newBuilder().Build(cc, balancer.BuildOptions{}).(*gcpBalancer)
	strategy := pb.ChannelPoolConfig_ROUND_ROBIN
	if round%3 == 2 {
		strategy = pb.ChannelPoolConfig_LEAST_ACTIVE_STREAMS
	}
	cfg := &GCPBalancerConfig{ApiConfig: &pb.ApiConfig{
		ChannelPool: &pb.ChannelPoolConfig{
			MinSize: 2, MaxSize: 5, MaxConcurrentStreamsLowWatermark: 2, FallbackToReady: true,
			UnresponsiveDetectionMs: 1, UnresponsiveCalls: 1, BindPickStrategy: strategy,
		},
		Method: []*pb.MethodConfig{
			vlMethod([]string{"/s/bind"}, pb.AffinityConfig_BIND),
			vlMethod([]string{"/s/bound"}, pb.AffinityConfig_BOUND),
			vlMethod([]string{"/s/unbind"}, pb.AffinityConfig_UNBIND),
		},
	}}
	addrs := []resolver.Address{{Addr: "a:1"}}
	// --- driver: the only goroutine that invokes balancer callbacks (usage contract)
	known := map[*vlSC]connectivity.State{}
	var live []*vlSC
	g := &vlRng{s: seed}
	absorb := func() {
		fresh, removed := cc.take()
		for _, sc := range fresh {
			known[sc] = connectivity.Idle
			live = append(live, sc)
		}
		for _, sc := range removed {
			gb.UpdateSubConnState(sc, balancer.SubConnState{ConnectivityState: connectivity.Shutdown})
			delete(known, sc)
			for i, x := range live {
				if x == sc {
					live = append(live[:i], live[i+1:]...)
					break
				}
			}
		}
	}
	set := func(sc *vlSC, s connectivity.State) {
		known[sc] = s
		gb.UpdateSubConnState(sc, balancer.SubConnState{ConnectivityState: s})
	}
	if err := gb.UpdateClientConnState(balancer.ClientConnState{ResolverState: resolver.State{Addresses: addrs}, BalancerConfig: cfg}); err != nil {
		t.Fatalf("UpdateClientConnState: %v", err)
	}
	absorb()
	for _, sc := range live {
		set(sc, connectivity.Connecting)
		set(sc, connectivity.Ready)
	}
	stop := make(chan struct{})
	var wg sync.WaitGroup
	// --- workers: Pick / Done from many goroutines
	for w := 0; w < workers; w++ {
		wg.Add(1)
		go func(w int) {
			defer wg.Done()
			r := &vlRng{s: seed*1000003 + uint64(w)}
			var pending []func()
			for {
				select {
				case <-stop:
					for _, f := range pending {
						f()
					}
					return
				default:
				}
				st, _ := cc.picker.Load().(*balancer.State)
				if st == nil {
					time.Sleep(50 * time.Microsecond)
					continue
				}
				key := "k" + strconv.Itoa(r.intn(6))
				method := []string{"/s/plain", "/s/bind", "/s/bound", "/s/unbind", "/s/bound"}[r.intn(5)]
				req, reply := &vlMsg{Key: key}, &vlMsg{Key: key}
				var ctx context.Context
				var cancel context.CancelFunc
				expired := r.intn(3) == 0
				if expired {
					ctx, cancel = context.WithDeadline(context.Background(), time.Now().Add(-time.Second))
				} else {
					ctx, cancel = context.WithTimeout(context.Background(), 3*time.Millisecond)
				}
				ctx = context.WithValue(ctx, gcpKey, &gcpContext{reqMsg: req, replyMsg: reply})
				res, err := st.Picker.Pick(balancer.PickInfo{FullMethodName: method, Ctx: ctx})
				if err != nil || res.Done == nil {
					cancel()
					continue
				}
				done := res.Done
				fin := func() {
					if expired {
						done(balancer.DoneInfo{Err: deErr})
					} else {
						done(balancer.DoneInfo{})
					}
					cancel()
				}
				if r.intn(4) == 0 {
					pending = append(pending, fin) // keep the stream open for a while (saturation -> growth, fallback)
					if len(pending) > 6 {
						pending[0]()
						pending = pending[1:]
					}
				} else {
					fin()
				}
			}
		}(w)
	}
	// --- driver loop
	deadline := time.Now().Add(dur)
	for time.Now().Before(deadline) {
		absorb()
		if len(live) > 0 {
			sc := live[g.intn(len(live))]
			switch g.intn(10) {
			case 0:
				set(sc, connectivity.TransientFailure)
			case 1:
				set(sc, connectivity.Idle)
			case 2:
				set(sc, connectivity.Connecting)
			case 3:
				gb.UpdateClientConnState(balancer.ClientConnState{ResolverState: resolver.State{Addresses: addrs}, BalancerConfig: cfg})
			case 4:
				gb.ResolverError(context.Canceled)
			default:
				set(sc, connectivity.Ready) // also concludes refreshes (replacement subconn becomes READY)
			}
		}
		time.Sleep(time.Duration(20+g.intn(200)) * time.Microsecond)
	}
	for _, sc := range live {
		set(sc, connectivity.Ready)
	}
	close(stop)
	wg.Wait()
	gb.Close()
}
