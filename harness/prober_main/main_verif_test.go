//go:build verif

// Harness for property C18, package main of spanner_prober. Injected with
// `go test -tags verif -overlay`; nothing in /repo is changed. Every case
// sets the real flag variables of main.go through the flag package
// (flag.Set = what flag.Parse does with -name=value) from generated strings,
// calls the real validateFlags() and prints
//
//	H F <project> <ops_project> <instance> <database> <instance_config> <qps> <num_rows> <payload_size> <probe_type> ; <out> ;
//
// (all nine values as "x"+hex of the text given to the flag package) where
// <out> is "X" if the flag package refused a value (main() would exit in
// flag.Parse), "panic", or
//
//	<float64 bits of *qps> <*numRows> <*payloadSize> <len(errs)> <mask>
//
// mask has one bit per error message of validateFlags, in source order
// (qps=1, num_rows=2, payload_size=4, project=8, ops_project=16, instance=32,
// database=64, instance_config=128, probe_type=256, anything else=512).
// What main() does with an accepted flag set (URIs, interval, probe) lives in
// unexported code of package prober; tools/eng_prober.py hands the accepted
// sets to harness/prober for that.
package main

import (
	"bufio"
	"encoding/hex"
	"flag"
	"fmt"
	"math"
	"os"
	"path/filepath"
	"sort"
	"strconv"
	"strings"
	"testing"
)

type rng struct{ s uint64 }

func (r *rng) next() uint64 {
	r.s += 0x9E3779B97F4A7C15
	z := r.s
	z = (z ^ (z >> 30)) * 0xBF58476D1CE4E5B9
	z = (z ^ (z >> 27)) * 0x94D049BB133111EB
	return z ^ (z >> 31)
}
func (r *rng) intn(n int) int           { return int(r.next() % uint64(n)) }
func (r *rng) pickS(xs []string) string { return xs[r.intn(len(xs))] }

func hx(s string) string { return "x" + hex.EncodeToString([]byte(s)) }
func unhx(t string) (string, error) {
	if len(t) == 0 || t[0] != 'x' {
		return "", fmt.Errorf("bad string token %q", t)
	}
	b, err := hex.DecodeString(t[1:])
	return string(b), err
}

var dist = map[string]int{}

var flagNames = []string{"project", "ops_project", "instance", "database", "instance_config", "qps", "num_rows",
	"payload_size", "probe_type"}

var errPrefixes = []string{"qps must", "num_rows must", "payload_size must", "project did not match",
	"ops_project did not match", "instance did not match", "database did not match",
	"instance_config did not match", "probe_type "}

func callValidate() (out string) {
	defer func() {
		if e := recover(); e != nil {
			out = "panic"
		}
	}()
	errs := validateFlags()
	mask := 0
	for _, e := range errs {
		bit := 512
		for i, p := range errPrefixes {
			if strings.HasPrefix(e.Error(), p) {
				bit = 1 << uint(i)
				break
			}
		}
		mask |= bit
	}
	return fmt.Sprintf("%d %d %d %d %d", math.Float64bits(*qps), *numRows, *payloadSize, len(errs), mask)
}

func runF(w *bufio.Writer, vals []string) {
	toks := make([]string, len(vals))
	for i, v := range vals {
		toks[i] = hx(v)
	}
	refused := false
	for i, name := range flagNames {
		if err := flag.Set(name, vals[i]); err != nil {
			refused = true
		}
	}
	out := "X"
	if !refused {
		out = callValidate()
		if strings.HasSuffix(out, " 0 0") {
			dist["F.accepted"]++
		} else {
			dist["F.rejected"]++
		}
	} else {
		dist["F.refused-by-flag-package"]++
	}
	fmt.Fprintf(w, "H F %s ; %s ;\n", strings.Join(toks, " "), out)
}

func runHistLine(w *bufio.Writer, line string) error {
	if i := strings.Index(line, ";"); i >= 0 {
		line = line[:i]
	}
	tok := strings.Fields(line)
	if len(tok) < 2 || tok[0] != "H" || tok[1] != "F" {
		return nil // cases of package prober and event lines
	}
	if len(tok) != 2+len(flagNames) {
		return fmt.Errorf("F: want %d strings", len(flagNames))
	}
	vals := make([]string, len(flagNames))
	for i := range vals {
		s, err := unhx(tok[2+i])
		if err != nil {
			return err
		}
		vals[i] = s
	}
	runF(w, vals)
	dist["hist.F"]++
	return nil
}

func histFiles(spec string) []string {
	var files []string
	for _, p := range strings.Split(spec, ":") {
		if p == "" {
			continue
		}
		st, err := os.Stat(p)
		if err != nil {
			continue
		}
		if st.IsDir() {
			m, _ := filepath.Glob(filepath.Join(p, "*.hist"))
			sort.Strings(m)
			files = append(files, m...)
		} else {
			files = append(files, p)
		}
	}
	return files
}

// ---------------------------------------------------------------- generators
const (
	projAlpha = "-_:.abcxyzABCXYZ0189"
	instAlpha = "-_.abcxyzABCXYZ0189"
)

var oddStrings = []string{"/", "..", "../..", "a/b", "/a", "a/", "projects/x", "a b", "a\n", "\n", "a\x00b", "é", "日本", "\xff",
	"a:b", "a%2fb", "a\\b", "a?b", "a#b", "+abc", "abc!", "<abc>", "abc=",
	"projects/google.com:abc/instances/test-instance", "x/../../y"}

func genName(g *rng, alpha string, pValid int) string {
	if g.intn(100) < pValid {
		c := g.intn(25)
		switch {
		case c == 0:
			return ""
		case c == 1:
			return strings.Repeat(string(alpha[g.intn(len(alpha))]), 200+g.intn(3000))
		case c == 2:
			return g.pickS([]string{"..", ".", "-", "_", "google.com:abc", "test1", "regional-us-central1", "a..b"})
		}
		n := 1 + g.intn(12)
		b := make([]byte, n)
		for i := range b {
			b[i] = alpha[g.intn(len(alpha))]
		}
		return string(b)
	}
	c := g.intn(10)
	switch {
	case c < 4:
		return oddStrings[g.intn(len(oddStrings))]
	case c < 8: // a valid name with one foreign byte
		n := 1 + g.intn(8)
		b := make([]byte, n)
		for i := range b {
			b[i] = alpha[g.intn(len(alpha))]
		}
		foreign := []byte("/:/ \n\x00\x80/@")
		b[g.intn(n)] = foreign[g.intn(len(foreign))]
		return string(b)
	default:
		n := g.intn(6)
		b := make([]byte, n)
		for i := range b {
			b[i] = byte(g.intn(256))
		}
		return string(b)
	}
}

var qpsTexts = []string{"1", "1000", "0.5", "1e-9", "1e-09", "9.999999999999999e-10", "1.0000000000000003e-09", "9.99e-10", "1.01e-9", "1e-10", "1.0842021724855046e-10", "1.0842021724855044e-10",
	"1.0842021724855047e-10", "1.1e-10", "3", "7", "999.9999", "1000.0000000000001", "1000.1", "1e9", "1e300",
	"5e-324", "1e-310", "0", "-0", "-1", "-1e-10", "Inf", "+Inf", "-Inf", "NaN", "nan", "0.001", "0.333333333333",
	"0x1p-33", "0x1p-34", "1_0", "1e400", "abc", "", " 1", "1,5", "infinity", "1e-400"}

func genQps(g *rng) string {
	c := g.intn(100)
	switch {
	case c < 30:
		return qpsTexts[g.intn(len(qpsTexts))]
	case c < 80: // in (0, 1000]
		return strconv.FormatFloat(float64(1+g.intn(1000000))/1000, 'g', -1, 64)
	case c < 84:
		return strconv.FormatFloat(1.0842021724855046e-10*(0.5+float64(g.intn(2000))/1000), 'g', -1, 64)
	case c < 88: // around minQPS = 1e-9
		return strconv.FormatFloat(1e-9*(0.9+float64(g.intn(2000))/10000), 'g', -1, 64)
	case c < 95:
		return strconv.FormatFloat(math.Pow(10, -float64(g.intn(14)))*float64(1+g.intn(9)), 'g', -1, 64)
	default:
		return strconv.FormatFloat(math.Float64frombits(g.next()), 'g', -1, 64)
	}
}

var intTexts = []string{"1", "1000", "1024", "0", "-1", "9223372036854775807", "-9223372036854775808", "2", "0x10", "1_000",
	"9223372036854775808", "abc", "", "1.5", "+7"}

func genInt(g *rng) string {
	c := g.intn(100)
	switch {
	case c < 75:
		return strconv.Itoa(1 + g.intn(5000))
	default:
		return intTexts[g.intn(len(intTexts))]
	}
}

var probeNames = []string{"noop", "stale_read", "strong_query", "stale_query", "dml", "read_write"}
var badProbeNames = []string{"", "Noop", "noop ", " noop", "NOOP", "dml\x00", "read-write", "stale", "not_a_probe", "noop\n",
	"stale_read/", "strong_quer", "strong_queryy", "notaprobe"}

func genF(g *rng, w *bufio.Writer) {
	// per-case probability (in %) that a single value is well-formed: mostly
	// high, so that a good share of the flag sets is accepted as a whole
	pv := []int{100, 100, 97, 90, 60}[g.intn(5)]
	vals := make([]string, len(flagNames))
	vals[0] = genName(g, projAlpha, pv)
	vals[1] = genName(g, projAlpha, pv)
	vals[2] = genName(g, instAlpha, pv)
	vals[3] = genName(g, instAlpha, pv)
	vals[4] = genName(g, instAlpha, pv)
	if g.intn(12) == 0 { // ':' is legal in a project only
		vals[2+g.intn(3)] = "a:b"
	}
	vals[5] = genQps(g)
	vals[6] = genInt(g)
	vals[7] = genInt(g)
	if g.intn(100) < pv-3 {
		vals[8] = probeNames[g.intn(len(probeNames))]
	} else {
		vals[8] = badProbeNames[g.intn(len(badProbeNames))]
	}
	runF(w, vals)
	dist["F"]++
}

func envInt(name string, def int) int {
	if v := os.Getenv(name); v != "" {
		if n, err := strconv.Atoi(v); err == nil {
			return n
		}
	}
	return def
}

func TestVerifProberMain(t *testing.T) {
	outPath := os.Getenv("VERIF_OUT")
	if outPath == "" {
		t.Skip("VERIF_OUT not set")
	}
	f, err := os.Create(outPath)
	if err != nil {
		t.Fatal(err)
	}
	defer f.Close()
	w := bufio.NewWriterSize(f, 1<<20)
	defer w.Flush()

	for _, hf := range histFiles(os.Getenv("VERIF_HIST")) {
		data, err := os.ReadFile(hf)
		if err != nil {
			t.Fatal(err)
		}
		for ln, line := range strings.Split(string(data), "\n") {
			if strings.HasPrefix(strings.TrimSpace(line), "#") || strings.TrimSpace(line) == "" {
				continue
			}
			if err := runHistLine(w, line); err != nil {
				t.Fatalf("%s:%d: %v", hf, ln+1, err)
			}
		}
	}
	seed := uint64(envInt("VERIF_SEED", 1))
	n := envInt("VERIF_NF", envInt("VERIF_N", 0))
	g := &rng{s: seed*0x9E3779B97F4A7C15 + 0x7654321}
	for i := 0; i < n; i++ {
		genF(g, w)
	}
	var keys []string
	for k := range dist {
		keys = append(keys, k)
	}
	sort.Strings(keys)
	var sb strings.Builder
	sb.WriteString("prober_main harness: input distribution:")
	for _, k := range keys {
		fmt.Fprintf(&sb, " %s=%d", k, dist[k])
	}
	sb.WriteString("\n")
	fmt.Fprint(os.Stderr, sb.String())
	// go test hides the output of a passing test binary: keep a copy next to the trace
	os.WriteFile(outPath+".dist", []byte(sb.String()), 0644)
}
