//go:build verif
// +build verif

// Race-stress workload for C10 (GCPMultiEndpoint group): concurrent route probes
// (pickConn, the routing step of Invoke/NewStream, without sending an RPC),
// UpdateMultiEndpoints with changing MultiEndpoint/endpoint sets, the monitor
// goroutines of real (never connecting) grpc.ClientConns, and Close.
// Only meaningful under `go test -race`. Knobs: VERIF_MS, VERIF_SEED, VERIF_WORKERS.
package grpcgcp

import (
	"context"
	"io/ioutil"
	"os"
	"strconv"
	"sync"
	"testing"
	"time"

	"google.golang.org/grpc"
	"google.golang.org/grpc/credentials/insecure"
	"google.golang.org/grpc/grpclog"

	"github.com/GoogleCloudPlatform/grpc-gcp-go/grpcgcp/multiendpoint"
	pb "github.com/GoogleCloudPlatform/grpc-gcp-go/grpcgcp/grpc_gcp"
)

type vlgRng struct{ s uint64 }

func (r *vlgRng) next() uint64 {
	r.s += 0x9e3779b97f4a7c15
	z := r.s
	z = (z ^ (z >> 30)) * 0xbf58476d1ce4e5b9
	z = (z ^ (z >> 27)) * 0x94d049bb133111eb
	return z ^ (z >> 31)
}
func (r *vlgRng) intn(n int) int { return int(r.next() % uint64(n)) }

func vlgEnvInt(name string, def int) int {
	if v, err := strconv.Atoi(os.Getenv(name)); err == nil {
		return v
	}
	return def
}

var vlgEndpoints = []string{"passthrough:///127.0.0.1:1", "passthrough:///127.0.0.1:2", "passthrough:///127.0.0.1:3", "passthrough:///127.0.0.1:4"}

func vlgOpts(g *vlgRng) *GCPMultiEndpointOptions {
	mes := map[string]*multiendpoint.MultiEndpointOptions{}
	names := []string{"default", "read", "write"}
	n := 1 + g.intn(3)
	for i := 0; i < n; i++ {
		k := 1 + g.intn(3)
		eps := []string{}
		for j := 0; j < k; j++ {
			eps = append(eps, vlgEndpoints[g.intn(len(vlgEndpoints))])
		}
		mes[names[i]] = &multiendpoint.MultiEndpointOptions{Endpoints: eps, RecoveryTimeout: time.Duration(g.intn(3)) * 50 * time.Microsecond,
			SwitchingDelay: time.Duration(g.intn(2)) * 50 * time.Microsecond}
	}
	return &GCPMultiEndpointOptions{
		GRPCgcpConfig:  &pb.ApiConfig{ChannelPool: &pb.ChannelPoolConfig{MinSize: 1, MaxSize: 2}},
		MultiEndpoints: mes,
		Default:        "default",
	}
}

func TestVerifLocksGME(t *testing.T) {
	grpclog.SetLoggerV2(grpclog.NewLoggerV2WithVerbosity(ioutil.Discard, ioutil.Discard, ioutil.Discard, 100))
	ms := vlgEnvInt("VERIF_MS", 4000)
	seed := uint64(vlgEnvInt("VERIF_SEED", 1))
	workers := vlgEnvInt("VERIF_WORKERS", 8)
	rounds := 1 + ms/700
	for r := 0; r < rounds; r++ {
		// rounds 0,1: Close() from two goroutines against concurrent updates; then route probes against updates
		// (on the unfixed code the probes soon die with "fatal error: concurrent map read and map write")
		vlgRound(t, seed+uint64(r)*104729, workers, time.Duration(ms/rounds)*time.Millisecond, r < 2)
	}
}

func vlgRound(t *testing.T, seed uint64, workers int, dur time.Duration, closers bool) {
	g := &vlgRng{s: seed}
	gme, err := NewGCPMultiEndpoint(vlgOpts(g), grpc.WithTransportCredentials(insecure.NewCredentials()))
	if err != nil {
		t.Fatalf("NewGCPMultiEndpoint: %v", err)
	}
	stop := make(chan struct{})
	var wg sync.WaitGroup
	for w := 0; w < workers; w++ {
		wg.Add(1)
		go func(w int) {
			defer wg.Done()
			r := &vlgRng{s: seed*31 + uint64(w)}
			names := []string{"default", "read", "write", "nosuch"}
			for {
				select {
				case <-stop:
					return
				default:
				}
				if closers {
					if w < 2 {
						_ = gme.Close()
						time.Sleep(time.Duration(100+r.intn(400)) * time.Microsecond)
					} else {
						time.Sleep(time.Millisecond)
					}
					continue
				}
				ctx := context.Background()
				if r.intn(3) > 0 {
					ctx = NewMEContext(ctx, names[r.intn(len(names))])
				}
				func() {
					// a MultiEndpoint may name a pool that an update just removed (finding of C15/C16, not a race)
					defer func() { recover() }()
					_ = gme.pickConn(ctx)
				}()
				if r.intn(64) == 0 {
					_ = gme.GCPConfig()
				}
			}
		}(w)
	}
	wg.Add(1)
	go func() {
		defer wg.Done()
		deadline := time.Now().Add(dur + 30*time.Millisecond) // still updating while Close runs
		for time.Now().Before(deadline) {
			_ = gme.UpdateMultiEndpoints(vlgOpts(g))
			time.Sleep(time.Duration(50+g.intn(500)) * time.Microsecond)
		}
	}()
	time.Sleep(dur)
	// Close concurrently with the last updates and probes
	_ = gme.Close()
	close(stop)
	wg.Wait()
}
