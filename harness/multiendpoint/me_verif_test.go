//go:build verif

// Harness for engine B (package multiendpoint). Injected with `go test -tags
// verif -overlay`; nothing in /repo is changed. It replaces the package's
// timeNow/timeAfterFunc variables with a virtual clock and timers that fire
// only when the history says so, drives the real multiEndpoint with generated,
// enumerated or replayed histories and writes one trace line per operation.
package multiendpoint

import (
	"bufio"
	"fmt"
	"os"
	"path/filepath"
	"sort"
	"strconv"
	"strings"
	"testing"
	"time"
)

// ---------------------------------------------------------------- PRNG
type rng struct{ s uint64 }

func (r *rng) next() uint64 {
	r.s += 0x9E3779B97F4A7C15
	z := r.s
	z = (z ^ (z >> 30)) * 0xBF58476D1CE4E5B9
	z = (z ^ (z >> 27)) * 0x94D049BB133111EB
	return z ^ (z >> 31)
}
func (r *rng) intn(n int) int        { return int(r.next() % uint64(n)) }
func (r *rng) pick(xs []int64) int64 { return xs[r.intn(len(xs))] }

// ---------------------------------------------------------------- fake clock
type vTimer struct {
	idx int
	due int64
	f   func()
	st  int // 0 pending, 1 stopped, 2 firing, 3 done
}

var (
	vbase   = time.Unix(1000000000, 0)
	vnow    int64
	vtimers []*vTimer
	vouts   []string
)

func (t *vTimer) Stop() bool {
	was := t.st == 0
	if was {
		t.st = 1
	}
	b := 0
	if was {
		b = 1
	}
	vouts = append(vouts, fmt.Sprintf("P %d %d", t.idx, b))
	return was
}

func (t *vTimer) Reset(d time.Duration) bool {
	vouts = append(vouts, "RESET")
	return false
}

func installFakes() {
	timeNow = func() time.Time { return vbase.Add(time.Duration(vnow)) }
	timeAfterFunc = func(d time.Duration, f func()) timerAlike {
		t := &vTimer{idx: len(vtimers), due: vnow + int64(d), f: f}
		vtimers = append(vtimers, t)
		vouts = append(vouts, fmt.Sprintf("T %d", int64(d)))
		return t
	}
}

func epName(id int) string {
	if id == 0 {
		return ""
	}
	return "ep" + strconv.Itoa(id)
}

func epID(name string) int {
	if name == "" {
		return 0
	}
	n, err := strconv.Atoi(strings.TrimPrefix(name, "ep"))
	if err != nil {
		return -1
	}
	return n
}

// ---------------------------------------------------------------- ops
type meOp struct {
	kind byte // H A S V B E
	a    int64
	b    int64
	ids  []int
}

func (o meOp) String() string {
	switch o.kind {
	case 'H':
		return fmt.Sprintf("H %d %d %d%s", o.a, o.b, len(o.ids), joinInts(o.ids))
	case 'A':
		return fmt.Sprintf("A %d %d", o.a, o.b)
	case 'S':
		return fmt.Sprintf("S %d%s", len(o.ids), joinInts(o.ids))
	case 'V':
		return fmt.Sprintf("V %d", o.a)
	case 'B':
		return fmt.Sprintf("B %d", o.a)
	case 'E':
		return fmt.Sprintf("E %d", o.a)
	}
	return "?"
}

func joinInts(xs []int) string {
	var sb strings.Builder
	for _, x := range xs {
		sb.WriteString(" ")
		sb.WriteString(strconv.Itoa(x))
	}
	return sb.String()
}

func names(ids []int) []string {
	out := make([]string, len(ids))
	for i, id := range ids {
		out[i] = epName(id)
	}
	return out
}

// ---------------------------------------------------------------- observation
func observe(m *multiEndpoint) string {
	type row struct{ id, prio, st, tmr int }
	var rows []row
	for name, e := range m.endpoints {
		tmr := -1
		if e.futureChange != nil {
			if vt, ok := e.futureChange.(*vTimer); ok {
				tmr = vt.idx
			} else {
				tmr = -2
			}
		}
		id := epID(name)
		if e.id != name {
			id = -3 // map key and endpoint id disagree: never equal to a model id
		}
		rows = append(rows, row{id, e.priority, int(e.status), tmr})
	}
	sort.Slice(rows, func(i, j int) bool { return rows[i].id < rows[j].id })
	var sb strings.Builder
	fmt.Fprintf(&sb, "%d %d", epID(m.Current()), len(rows))
	for _, r := range rows {
		fmt.Fprintf(&sb, " %d %d %d %d", r.id, r.prio, r.st, r.tmr)
	}
	fmt.Fprintf(&sb, " %d", len(vtimers))
	for _, t := range vtimers {
		fmt.Fprintf(&sb, " %d %d", t.due, t.st)
	}
	fmt.Fprintf(&sb, " %d", vnow)
	return sb.String()
}

// ---------------------------------------------------------------- execution
type runner struct {
	m *multiEndpoint
	w *bufio.Writer
	nhist int
}

func (r *runner) emit(o meOp, extra string) {
	fmt.Fprintf(r.w, "%s ; %s ; %s\n", o.String(), strings.Join(vouts, " "), extra)
	vouts = vouts[:0]
}

// start runs the H operation. Returns false if construction was refused.
func (r *runner) start(o meOp) bool {
	vnow = 0
	vtimers = nil
	vouts = vouts[:0]
	me, err := NewMultiEndpoint(&MultiEndpointOptions{
		Endpoints:       names(o.ids),
		RecoveryTimeout: time.Duration(o.a),
		SwitchingDelay:  time.Duration(o.b),
	})
	if err != nil {
		vouts = append(vouts, "X")
		r.emit(o, "")
		r.m = nil
		return false
	}
	r.m = me.(*multiEndpoint)
	r.emit(o, observe(r.m))
	return true
}

func (r *runner) apply(o meOp) {
	switch o.kind {
	case 'A':
		r.m.SetEndpointAvailability(epName(int(o.a)), o.b != 0)
	case 'S':
		if err := r.m.SetEndpoints(names(o.ids)); err != nil {
			vouts = append(vouts, "X")
		}
	case 'V':
		if o.a >= 0 {
			vnow += o.a
		}
	case 'B':
		k := int(o.a)
		if k >= 0 && k < len(vtimers) && vtimers[k].st == 0 && vtimers[k].due <= vnow {
			vtimers[k].st = 2
		}
	case 'E':
		k := int(o.a)
		if k >= 0 && k < len(vtimers) && vtimers[k].st == 2 {
			vtimers[k].st = 3
			vtimers[k].f()
		}
	}
	r.emit(o, observe(r.m))
}

func (r *runner) runHistory(h []meOp) {
	if len(h) == 0 || h[0].kind != 'H' {
		return
	}
	if !r.start(h[0]) {
		return
	}
	for _, o := range h[1:] {
		r.apply(o)
	}
}

// ---------------------------------------------------------------- generation
var durs = []int64{0, 5, 10, 20, 30}

func genList(g *rng, pool int) []int {
	n := 1 + g.intn(4)
	if pool > 10 { // occasionally long endpoint lists (sizes beyond small buffers and byte-sized indices)
		n = pool/2 + g.intn(pool/2)
	}
	if g.intn(12) == 0 {
		n = 0
	}
	ids := make([]int, 0, n)
	for i := 0; i < n; i++ {
		ids = append(ids, g.intn(pool))
	}
	if g.intn(3) != 0 { // mostly duplicate-free
		seen := map[int]bool{}
		var u []int
		for _, x := range ids {
			if !seen[x] {
				seen[x] = true
				u = append(u, x)
			}
		}
		ids = u
	}
	return ids
}

// genHistory generates one history; it needs the live object to know which
// timers are due, so it runs the operations as it generates them.
func (r *runner) genAndRun(g *rng, maxOps int) {
	pool := 2 + g.intn(5)
	if g.intn(50) == 0 {
		pool = 20 + g.intn(280)
	}
	r.nhist++
	if r.nhist == 3 { // one very long list per run (priorities beyond 2^10), few operations: the model is slow on it
		pool = 1030 + g.intn(70)
		if maxOps > 4 {
			maxOps = 4
		}
	}
	h0 := meOp{kind: 'H', a: g.pick(durs), b: g.pick(durs), ids: genList(g, pool)}
	huge := r.nhist == 3
	if huge { // every id once, shuffled; no recovery window and no switching delay: Current() follows at once
		h0.a, h0.b = 0, 0
		h0.ids = make([]int, pool)
		for i := range h0.ids {
			h0.ids[i] = i
		}
		for i := pool - 1; i > 0; i-- {
			j := g.intn(i + 1)
			h0.ids[i], h0.ids[j] = h0.ids[j], h0.ids[i]
		}
	}
	if g.intn(40) == 0 {
		h0.a = -5
	}
	if g.intn(40) == 0 {
		h0.b = -5
	}
	if !r.start(h0) {
		return
	}
	if huge { // only endpoints of very low priority (positions 1024 and beyond) become available
		r.apply(meOp{kind: 'A', a: int64(h0.ids[1024+g.intn(pool-1024)]), b: 1})
		r.apply(meOp{kind: 'A', a: int64(h0.ids[1024+g.intn(pool-1024)]), b: 1})
	}
	n := 1 + g.intn(maxOps)
	for i := 0; i < n; i++ {
		var due, firing []int
		var nextDue int64 = -1
		for _, t := range vtimers {
			if t.st == 0 && t.due <= vnow {
				due = append(due, t.idx)
			}
			if t.st == 0 && t.due > vnow && (nextDue < 0 || t.due < nextDue) {
				nextDue = t.due
			}
			if t.st == 2 {
				firing = append(firing, t.idx)
			}
		}
		c := g.intn(100)
		switch {
		case c < 40:
			id := g.intn(pool)
			if g.intn(10) == 0 {
				id = pool + g.intn(2)
			}
			r.apply(meOp{kind: 'A', a: int64(id), b: int64(g.intn(2))})
		case c < 52:
			r.apply(meOp{kind: 'S', ids: genList(g, pool)})
		case c < 70:
			dt := g.pick([]int64{0, 1, 3, 5, 10, 20})
			if nextDue >= 0 && g.intn(2) == 0 {
				dt = nextDue - vnow
				if g.intn(4) == 0 {
					dt--
				}
			}
			r.apply(meOp{kind: 'V', a: dt})
		case c < 90:
			if len(due) > 0 {
				k := due[g.intn(len(due))]
				r.apply(meOp{kind: 'B', a: int64(k)})
				if g.intn(4) != 0 {
					r.apply(meOp{kind: 'E', a: int64(k)})
					i++
				}
			} else if len(firing) > 0 {
				r.apply(meOp{kind: 'E', a: int64(firing[g.intn(len(firing))])})
			} else if nextDue >= 0 {
				r.apply(meOp{kind: 'V', a: nextDue - vnow})
			} else {
				r.apply(meOp{kind: 'A', a: int64(g.intn(pool)), b: int64(g.intn(2))})
			}
		default:
			if len(firing) > 0 {
				r.apply(meOp{kind: 'E', a: int64(firing[g.intn(len(firing))])})
			} else {
				r.apply(meOp{kind: 'A', a: int64(g.intn(pool)), b: 0})
			}
		}
	}
	// drain: let every pending timer fire (convergence is observable at the end)
	if g.intn(2) == 0 {
		for guard := 0; guard < 200; guard++ {
			var k = -1
			for _, t := range vtimers {
				if t.st == 2 {
					k = t.idx
					break
				}
			}
			if k >= 0 {
				r.apply(meOp{kind: 'E', a: int64(k)})
				continue
			}
			var best *vTimer
			for _, t := range vtimers {
				if t.st == 0 && (best == nil || t.due < best.due) {
					best = t
				}
			}
			if best == nil {
				break
			}
			if best.due > vnow {
				r.apply(meOp{kind: 'V', a: best.due - vnow})
			}
			r.apply(meOp{kind: 'B', a: int64(best.idx)})
			r.apply(meOp{kind: 'E', a: int64(best.idx)})
		}
	}
}

// enumerate runs every history of exactly `depth` operations over a small
// alphabet (3 endpoints) for one configuration. Timer operations are only
// offered when enabled, so the tree is pruned to legal histories.
func (r *runner) enumerate(h0 meOp, depth int, count *int) {
	var prefix []meOp
	var rec func(d int)
	replay := func() {
		r.start(h0)
		for _, o := range prefix {
			r.applyQuiet(o)
		}
	}
	rec = func(d int) {
		if d == 0 {
			// re-run the whole prefix with trace output
			r.start(h0)
			for _, o := range prefix {
				r.apply(o)
			}
			*count++
			return
		}
		replay()
		var alts []meOp
		for id := 1; id <= 3; id++ {
			alts = append(alts, meOp{kind: 'A', a: int64(id), b: 1}, meOp{kind: 'A', a: int64(id), b: 0})
		}
		alts = append(alts, meOp{kind: 'S', ids: []int{2, 1}}, meOp{kind: 'S', ids: []int{3, 1, 2}}, meOp{kind: 'S', ids: []int{3}})
		var nextDue int64 = -1
		for _, t := range vtimers {
			if t.st == 0 && t.due <= vnow {
				alts = append(alts, meOp{kind: 'B', a: int64(t.idx)})
			}
			if t.st == 2 {
				alts = append(alts, meOp{kind: 'E', a: int64(t.idx)})
			}
			if t.st == 0 && t.due > vnow && (nextDue < 0 || t.due < nextDue) {
				nextDue = t.due
			}
		}
		if nextDue >= 0 {
			alts = append(alts, meOp{kind: 'V', a: nextDue - vnow})
		}
		for _, a := range alts {
			prefix = append(prefix, a)
			rec(d - 1)
			prefix = prefix[:len(prefix)-1]
		}
	}
	rec(depth)
}

func (r *runner) applyQuiet(o meOp) {
	w := r.w
	r.w = bufio.NewWriter(discard{})
	r.apply(o)
	r.w = w
}

type discard struct{}

func (discard) Write(p []byte) (int, error) { return len(p), nil }

// ---------------------------------------------------------------- parsing
func parseHistories(path string) ([][]meOp, error) {
	f, err := os.Open(path)
	if err != nil {
		return nil, err
	}
	defer f.Close()
	var hs [][]meOp
	sc := bufio.NewScanner(f)
	sc.Buffer(make([]byte, 1<<20), 1<<20)
	for sc.Scan() {
		line := sc.Text()
		if i := strings.Index(line, ";"); i >= 0 {
			line = line[:i]
		}
		fs := strings.Fields(line)
		if len(fs) == 0 || strings.HasPrefix(fs[0], "#") {
			continue
		}
		ints := make([]int64, 0, len(fs))
		for _, x := range fs[1:] {
			v, err := strconv.ParseInt(x, 10, 64)
			if err != nil {
				return nil, fmt.Errorf("%s: bad token %q", path, x)
			}
			ints = append(ints, v)
		}
		toIds := func(xs []int64) []int {
			out := make([]int, len(xs))
			for i, x := range xs {
				out[i] = int(x)
			}
			return out
		}
		var o meOp
		o.kind = fs[0][0]
		switch o.kind {
		case 'H':
			o.a, o.b = ints[0], ints[1]
			o.ids = toIds(ints[3 : 3+ints[2]])
			hs = append(hs, nil)
		case 'A':
			o.a, o.b = ints[0], ints[1]
		case 'S':
			o.ids = toIds(ints[1 : 1+ints[0]])
		case 'V', 'B', 'E':
			o.a = ints[0]
		default:
			return nil, fmt.Errorf("%s: bad op %q", path, fs[0])
		}
		if len(hs) == 0 {
			return nil, fmt.Errorf("%s: operation before H", path)
		}
		hs[len(hs)-1] = append(hs[len(hs)-1], o)
	}
	return hs, sc.Err()
}

func envInt(name string, def int) int {
	if v := os.Getenv(name); v != "" {
		if n, err := strconv.Atoi(v); err == nil {
			return n
		}
	}
	return def
}

func TestVerifME(t *testing.T) {
	out := os.Getenv("VERIF_OUT")
	if out == "" {
		t.Skip("VERIF_OUT not set")
	}
	f, err := os.Create(out)
	if err != nil {
		t.Fatal(err)
	}
	defer f.Close()
	w := bufio.NewWriterSize(f, 1<<20)
	defer w.Flush()
	installFakes()
	r := &runner{w: w}

	// 1. corpus / replay files first
	for _, p := range strings.Split(os.Getenv("VERIF_HIST"), ":") {
		if p == "" {
			continue
		}
		paths := []string{p}
		if st, err := os.Stat(p); err == nil && st.IsDir() {
			paths, _ = filepath.Glob(filepath.Join(p, "*.hist"))
			sort.Strings(paths)
		}
		for _, q := range paths {
			hs, err := parseHistories(q)
			if err != nil {
				t.Fatal(err)
			}
			for _, h := range hs {
				r.runHistory(h)
			}
		}
	}
	// 2. random histories
	g := &rng{s: uint64(envInt("VERIF_SEED", 1))}
	n := envInt("VERIF_N", 0)
	maxOps := envInt("VERIF_MAXOPS", 40)
	for i := 0; i < n; i++ {
		r.genAndRun(g, maxOps)
	}
	// 3. small-scope enumeration
	if d := envInt("VERIF_ENUM_DEPTH", 0); d > 0 {
		count := 0
		for _, cfg := range [][2]int64{{0, 0}, {10, 0}, {0, 10}, {10, 20}, {20, 10}, {10, 10}} {
			r.enumerate(meOp{kind: 'H', a: cfg[0], b: cfg[1], ids: []int{1, 2, 3}}, d, &count)
		}
		fmt.Fprintf(os.Stderr, "enumerated %d histories\n", count)
	}
}
