//go:build verif

// Harness for engine "keys" (property C11). Injected into package grpcgcp with
// `go test -tags verif -overlay`; nothing in /repo is changed. It builds Go
// values of arbitrary shape with package reflect (plus hand-written fixture
// types and generated protobuf messages), dumps each value structurally, calls
// the REAL getAffinityKeysFromMessage(locator, msg) under recover() and writes
//
//	H K <stream> <locator> <origin> <value tokens> ; <P|E|O> <n> <keys...> ;
//
// per case. A history is either ONE such line, or (stateful stream) an `H K`
// line followed by event lines `K <stream> <locator> <origin> <value> ; ... ;`
// which are further calls made in the same process one after the other.
// <stream>: v = locator derived from the value's shape, m = mutated
// (malformed) locator, x = fixture, c = read from a .hist file, s/sv/sm/sx =
// stateful history, r = re-run of an earlier case at the end of the run. <origin>: `G`
// (value rebuilt from the tokens when replayed) or `X <fixture> <seed>`.
// Byte strings are hex, `-` is the empty string, `'abc` is accepted on input
// for plain text. Two more case kinds check the modelled library functions
// directly: `H T <in> ; <strings.Title(in)> ;` and `H S <in> ; <n> <pieces> ;`.
//
// Every top-level identifier starts with vk/VK (another engine's harness
// lives in the same package).
package grpcgcp

import (
	"bufio"
	"encoding/hex"
	"fmt"
	"os"
	"path/filepath"
	"reflect"
	"sort"
	"strconv"
	"strings"
	"testing"
	"unsafe"

	vkpb "github.com/GoogleCloudPlatform/grpc-gcp-go/grpcgcp/grpc_gcp"
	vkhw "github.com/GoogleCloudPlatform/grpc-gcp-go/grpcgcp/test_grpc/helloworld/helloworld"
	"google.golang.org/protobuf/proto"
	"google.golang.org/protobuf/runtime/protoimpl"
)

// ---------------------------------------------------------------- PRNG (splitmix64)
type vkRng struct{ s uint64 }

func (r *vkRng) next() uint64 {
	r.s += 0x9E3779B97F4A7C15
	z := r.s
	z = (z ^ (z >> 30)) * 0xBF58476D1CE4E5B9
	z = (z ^ (z >> 27)) * 0x94D049BB133111EB
	return z ^ (z >> 31)
}
func (r *vkRng) intn(n int) int         { return int(r.next() % uint64(n)) }
func (r *vkRng) pct(p int) bool         { return r.intn(100) < p }
func (r *vkRng) str(xs []string) string { return xs[r.intn(len(xs))] }

// ---------------------------------------------------------------- encoding
func vkHex(s string) string {
	if s == "" {
		return "-"
	}
	return hex.EncodeToString([]byte(s))
}

func vkUnhex(t string) (string, error) {
	if t == "-" {
		return "", nil
	}
	if strings.HasPrefix(t, "'") {
		return t[1:], nil
	}
	b, err := hex.DecodeString(t)
	return string(b), err
}

// ---------------------------------------------------------------- fixed types
var (
	vkStringT = reflect.TypeOf("")
	vkIfaceT  = reflect.TypeOf((*interface{})(nil)).Elem()
	vkStateT  = reflect.TypeOf(protoimpl.MessageState{})
	vkPkgPath = reflect.TypeOf(vkNested{}).PkgPath()
)

// canonical type per "other" kind (kinds the code never looks into)
func vkOtherType(k reflect.Kind) reflect.Type {
	switch k {
	case reflect.Bool:
		return reflect.TypeOf(false)
	case reflect.Int:
		return reflect.TypeOf(int(0))
	case reflect.Int8:
		return reflect.TypeOf(int8(0))
	case reflect.Int16:
		return reflect.TypeOf(int16(0))
	case reflect.Int32:
		return reflect.TypeOf(int32(0))
	case reflect.Int64:
		return reflect.TypeOf(int64(0))
	case reflect.Uint:
		return reflect.TypeOf(uint(0))
	case reflect.Uint8:
		return reflect.TypeOf(uint8(0))
	case reflect.Uint16:
		return reflect.TypeOf(uint16(0))
	case reflect.Uint32:
		return reflect.TypeOf(uint32(0))
	case reflect.Uint64:
		return reflect.TypeOf(uint64(0))
	case reflect.Uintptr:
		return reflect.TypeOf(uintptr(0))
	case reflect.Float32:
		return reflect.TypeOf(float32(0))
	case reflect.Float64:
		return reflect.TypeOf(float64(0))
	case reflect.Complex64:
		return reflect.TypeOf(complex64(0))
	case reflect.Complex128:
		return reflect.TypeOf(complex128(0))
	case reflect.Chan:
		return reflect.TypeOf((chan int)(nil))
	case reflect.Func:
		return reflect.TypeOf((func())(nil))
	case reflect.UnsafePointer:
		return reflect.TypeOf(unsafe.Pointer(nil))
	}
	return nil
}

var vkOtherKinds = []reflect.Kind{reflect.Bool, reflect.Int, reflect.Int8, reflect.Int16, reflect.Int32, reflect.Int64,
	reflect.Uint, reflect.Uint8, reflect.Uint16, reflect.Uint32, reflect.Uint64, reflect.Uintptr, reflect.Float32,
	reflect.Float64, reflect.Complex64, reflect.Complex128, reflect.Chan, reflect.Func, reflect.UnsafePointer}

// ---------------------------------------------------------------- structural dump
type vkDumper struct {
	toks     []string
	typed    bool // write full type descriptors (origin G) or `u` (fixtures)
	maxDepth int
	pruned   int
}

func (d *vkDumper) emit(s ...string) { d.toks = append(d.toks, s...) }

func (d *vkDumper) typeDesc(t reflect.Type) {
	if !d.typed {
		d.emit("u")
		return
	}
	switch t.Kind() {
	case reflect.String:
		d.emit("s")
	case reflect.Ptr:
		d.emit("p")
		d.typeDesc(t.Elem())
	case reflect.Interface:
		d.emit("i")
	case reflect.Slice:
		d.emit("l")
		d.typeDesc(t.Elem())
	case reflect.Array:
		d.emit("a", strconv.Itoa(t.Len()))
		d.typeDesc(t.Elem())
	case reflect.Map:
		d.emit("m")
		d.typeDesc(t.Key())
		d.typeDesc(t.Elem())
	case reflect.Struct:
		d.emit("t", strconv.Itoa(t.NumField()))
		for i := 0; i < t.NumField(); i++ {
			d.emit(vkHex(t.Field(i).Name))
			d.typeDesc(t.Field(i).Type)
		}
	default:
		d.emit("o" + strconv.Itoa(int(t.Kind())))
	}
}

func (d *vkDumper) value(v reflect.Value, depth int) {
	if depth > d.maxDepth {
		d.maxDepth = depth
	}
	if depth > 64 {
		panic("vk: value too deep to dump (cyclic?)")
	}
	if !v.IsValid() {
		d.emit("I")
		return
	}
	switch v.Kind() {
	case reflect.String:
		d.emit("S", vkHex(v.String()))
	case reflect.Ptr:
		if v.IsNil() {
			d.emit("P0")
			d.typeDesc(v.Type().Elem())
		} else {
			d.emit("P1")
			d.value(v.Elem(), depth+1)
		}
	case reflect.Interface:
		if v.IsNil() {
			d.emit("N0")
		} else {
			d.emit("N1")
			d.value(v.Elem(), depth+1)
		}
	case reflect.Struct:
		t := v.Type()
		d.emit("T", strconv.Itoa(t.NumField()))
		for i := 0; i < t.NumField(); i++ {
			f := t.Field(i)
			anon := "0"
			if f.Anonymous {
				anon = "1"
			}
			d.emit(vkHex(f.Name), anon)
			// protobuf's internal message state of a message that has been used
			// points into a cyclic graph of descriptors; its field name starts
			// with a lower-case letter, which no locator can name
			// (Proofs.same_after_erase), so its contents are not dumped.
			if f.Type == vkStateT && !v.Field(i).IsZero() {
				if f.Name == "" || f.Name[0] < 'a' || f.Name[0] > 'z' {
					panic("vk: pruned field must have a lower-case initial")
				}
				d.emit("Z", strconv.Itoa(int(f.Type.Kind())))
				d.pruned++
				continue
			}
			d.value(v.Field(i), depth+1)
		}
	case reflect.Slice:
		d.emit("L")
		d.typeDesc(v.Type().Elem())
		d.emit(strconv.Itoa(v.Len()))
		for i := 0; i < v.Len(); i++ {
			d.value(v.Index(i), depth+1)
		}
	case reflect.Array:
		d.emit("A")
		d.typeDesc(v.Type().Elem())
		d.emit(strconv.Itoa(v.Len()))
		for i := 0; i < v.Len(); i++ {
			d.value(v.Index(i), depth+1)
		}
	case reflect.Map:
		d.emit("M")
		d.typeDesc(v.Type().Key())
		d.typeDesc(v.Type().Elem())
		d.emit(strconv.Itoa(v.Len()))
		type ent struct{ k, v []string }
		var ents []ent
		it := v.MapRange()
		for it.Next() {
			kd := &vkDumper{typed: d.typed}
			kd.value(it.Key(), depth+1)
			vd := &vkDumper{typed: d.typed}
			vd.value(it.Value(), depth+1)
			if kd.maxDepth > d.maxDepth {
				d.maxDepth = kd.maxDepth
			}
			if vd.maxDepth > d.maxDepth {
				d.maxDepth = vd.maxDepth
			}
			ents = append(ents, ent{kd.toks, vd.toks})
		}
		key := func(e ent) string { return strings.Join(e.k, " ") + " | " + strings.Join(e.v, " ") }
		sort.Slice(ents, func(i, j int) bool { return key(ents[i]) < key(ents[j]) })
		for _, e := range ents {
			d.emit(e.k...)
			d.emit(e.v...)
		}
	default:
		d.emit("O", strconv.Itoa(int(v.Kind())))
	}
}

// ---------------------------------------------------------------- rebuilding a value from tokens (origin G)
type vkParser struct {
	toks []string
	pos  int
}

func (p *vkParser) next() string {
	if p.pos >= len(p.toks) {
		panic("vk: unexpected end of tokens")
	}
	t := p.toks[p.pos]
	p.pos++
	return t
}

func (p *vkParser) int() int {
	n, err := strconv.Atoi(p.next())
	if err != nil || n < 0 || n > 100000 {
		panic("vk: bad count")
	}
	return n
}

func (p *vkParser) bytes() string {
	s, err := vkUnhex(p.next())
	if err != nil {
		panic("vk: bad hex token")
	}
	return s
}

func vkStructOf(names []string, types []reflect.Type) reflect.Type {
	fs := make([]reflect.StructField, len(names))
	for i := range names {
		fs[i] = reflect.StructField{Name: names[i], Type: types[i]}
		c := names[i][0]
		if c == '_' || (c >= 'a' && c <= 'z') {
			fs[i].PkgPath = vkPkgPath
		}
	}
	return reflect.StructOf(fs)
}

func (p *vkParser) typ() reflect.Type {
	t := p.next()
	switch {
	case t == "s":
		return vkStringT
	case t == "i":
		return vkIfaceT
	case t == "p":
		return reflect.PtrTo(p.typ())
	case t == "l":
		return reflect.SliceOf(p.typ())
	case t == "a":
		n := p.int()
		return reflect.ArrayOf(n, p.typ())
	case t == "m":
		k := p.typ()
		return reflect.MapOf(k, p.typ())
	case t == "t":
		n := p.int()
		names := make([]string, n)
		types := make([]reflect.Type, n)
		for i := 0; i < n; i++ {
			names[i] = p.bytes()
			types[i] = p.typ()
		}
		return vkStructOf(names, types)
	case len(t) > 1 && t[0] == 'o':
		k, err := strconv.Atoi(t[1:])
		if err == nil && vkOtherType(reflect.Kind(k)) != nil {
			return vkOtherType(reflect.Kind(k))
		}
	}
	panic("vk: cannot rebuild type token " + t)
}

func vkSetField(sv reflect.Value, i int, x reflect.Value) {
	f := sv.Field(i)
	if f.CanSet() {
		f.Set(x)
		return
	}
	reflect.NewAt(f.Type(), unsafe.Pointer(f.UnsafeAddr())).Elem().Set(x)
}

// value parses one value; the zero reflect.Value stands for `I` (nil interface).
func (p *vkParser) value() reflect.Value {
	switch t := p.next(); t {
	case "I":
		return reflect.Value{}
	case "S":
		return reflect.ValueOf(p.bytes())
	case "O":
		k := p.int()
		ot := vkOtherType(reflect.Kind(k))
		if ot == nil {
			panic("vk: kind " + strconv.Itoa(k) + " is not an opaque kind")
		}
		return reflect.Zero(ot)
	case "P0":
		return reflect.Zero(reflect.PtrTo(p.typ()))
	case "P1":
		x := p.value()
		ptr := reflect.New(x.Type())
		ptr.Elem().Set(x)
		return ptr
	case "N0":
		return reflect.Zero(vkIfaceT)
	case "N1":
		x := p.value()
		v := reflect.New(vkIfaceT).Elem()
		v.Set(x)
		return v
	case "T":
		n := p.int()
		names := make([]string, n)
		vals := make([]reflect.Value, n)
		types := make([]reflect.Type, n)
		for i := 0; i < n; i++ {
			names[i] = p.bytes()
			if p.next() != "0" {
				panic("vk: embedded fields cannot be rebuilt from tokens (use a fixture)")
			}
			vals[i] = p.value()
			types[i] = vals[i].Type()
		}
		sv := reflect.New(vkStructOf(names, types)).Elem()
		for i := 0; i < n; i++ {
			vkSetField(sv, i, vals[i])
		}
		return sv
	case "L":
		et := p.typ()
		n := p.int()
		sl := reflect.MakeSlice(reflect.SliceOf(et), n, n)
		for i := 0; i < n; i++ {
			sl.Index(i).Set(p.value())
		}
		return sl
	case "A":
		et := p.typ()
		n := p.int()
		ar := reflect.New(reflect.ArrayOf(n, et)).Elem()
		for i := 0; i < n; i++ {
			ar.Index(i).Set(p.value())
		}
		return ar
	case "M":
		kt := p.typ()
		vt := p.typ()
		n := p.int()
		m := reflect.MakeMap(reflect.MapOf(kt, vt))
		for i := 0; i < n; i++ {
			k := p.value()
			if kt.Kind() == reflect.Int {
				k = reflect.ValueOf(i) // contents of opaque kinds are not dumped: keep the entries distinct
			}
			m.SetMapIndex(k, p.value())
		}
		return m
	default:
		panic("vk: cannot rebuild value token " + t)
	}
}

// ---------------------------------------------------------------- random types and values
var vkFieldNames = []string{"Key", "Name", "Id", "Nested", "Items", "Value", "Tags", "Meta", "A_b", "X1",
	"NestedField", "RepeatedField", "K", "Ünï", "_x", "AB", "Key2"}

var vkStrings = []string{"", "k", "key-1", "projects/p/instances/i/databases/d/sessions/s", "a.b", "with space",
	"caf\xc3\xa9", "\xff\xfe", "\x00", "K"}

type vkGen struct {
	g      *vkRng
	nilPct int
	big    int // > 0: the next slice generated gets this many elements (one long repeated field per round)
}

func (c *vkGen) fieldNames(n int) []string {
	perm := make([]string, len(vkFieldNames))
	copy(perm, vkFieldNames)
	for i := len(perm) - 1; i > 0; i-- {
		j := c.g.intn(i + 1)
		perm[i], perm[j] = perm[j], perm[i]
	}
	return perm[:n]
}

// message-like struct type: what generated protobuf code looks like, plus a
// few odd field types
func (c *vkGen) msgType(depth int) reflect.Type {
	n := 1 + c.g.intn(5)
	names := c.fieldNames(n)
	types := make([]reflect.Type, n)
	for i := range types {
		r := c.g.intn(100)
		switch {
		case r < 28:
			types[i] = vkStringT
		case r < 44 && depth > 1:
			types[i] = reflect.PtrTo(c.msgType(depth - 2))
		case r < 60 && depth > 2:
			types[i] = reflect.SliceOf(reflect.PtrTo(c.msgType(depth - 3)))
		case r < 70:
			types[i] = reflect.SliceOf(vkStringT)
		case r < 78:
			types[i] = vkOtherType(vkOtherKinds[c.g.intn(len(vkOtherKinds))])
		case r < 82:
			types[i] = vkIfaceT
		case r < 85:
			types[i] = reflect.PtrTo(vkStringT)
		case r < 88:
			types[i] = reflect.MapOf(vkStringT, vkStringT)
		case r < 91:
			types[i] = reflect.SliceOf(reflect.TypeOf(byte(0)))
		case r < 94 && depth > 1:
			types[i] = reflect.SliceOf(c.msgType(depth - 2))
		case r < 96 && depth > 2:
			types[i] = reflect.PtrTo(reflect.PtrTo(c.msgType(depth - 3)))
		case r < 98 && depth > 0:
			types[i] = c.wildType(depth - 1)
		default:
			types[i] = reflect.ArrayOf(c.g.intn(3), vkStringT)
		}
	}
	return vkStructOf(names, types)
}

// any type at all
func (c *vkGen) wildType(depth int) reflect.Type {
	r := c.g.intn(100)
	if depth <= 0 {
		switch {
		case r < 50:
			return vkStringT
		case r < 60:
			return vkIfaceT
		default:
			return vkOtherType(vkOtherKinds[c.g.intn(len(vkOtherKinds))])
		}
	}
	switch {
	case r < 15:
		return vkStringT
	case r < 40:
		n := 1 + c.g.intn(4)
		names := c.fieldNames(n)
		types := make([]reflect.Type, n)
		for i := range types {
			types[i] = c.wildType(depth - 1)
		}
		return vkStructOf(names, types)
	case r < 58:
		return reflect.PtrTo(c.wildType(depth - 1))
	case r < 74:
		return reflect.SliceOf(c.wildType(depth - 1))
	case r < 80:
		return vkIfaceT
	case r < 85:
		return reflect.ArrayOf(c.g.intn(3), c.wildType(depth-1))
	case r < 91:
		kt := vkStringT
		if c.g.pct(30) {
			kt = reflect.TypeOf(int(0))
		}
		return reflect.MapOf(kt, c.wildType(depth-1))
	default:
		return vkOtherType(vkOtherKinds[c.g.intn(len(vkOtherKinds))])
	}
}

func (c *vkGen) other(t reflect.Type) reflect.Value {
	v := reflect.New(t).Elem()
	x := c.g.next()
	switch t.Kind() {
	case reflect.Bool:
		v.SetBool(x&1 == 1)
	case reflect.Int, reflect.Int8, reflect.Int16, reflect.Int32, reflect.Int64:
		v.SetInt(int64(x) >> (64 - uint(t.Bits())))
	case reflect.Uint, reflect.Uint8, reflect.Uint16, reflect.Uint32, reflect.Uint64, reflect.Uintptr:
		v.SetUint(x >> (64 - uint(t.Bits())))
	case reflect.Float32, reflect.Float64:
		v.SetFloat(float64(int64(x)%1000) / 8)
	case reflect.Complex64, reflect.Complex128:
		v.SetComplex(complex(float64(x%7), float64(x%3)))
	case reflect.Chan:
		if x&1 == 1 {
			v.Set(reflect.MakeChan(t, 0))
		}
	case reflect.Func:
		if x&1 == 1 {
			v.Set(reflect.ValueOf(func() {}))
		}
	}
	return v
}

func (c *vkGen) value(t reflect.Type, depth int) reflect.Value {
	switch t.Kind() {
	case reflect.String:
		return reflect.ValueOf(c.g.str(vkStrings)).Convert(t)
	case reflect.Ptr:
		if c.g.pct(c.nilPct) {
			return reflect.Zero(t)
		}
		p := reflect.New(t.Elem())
		p.Elem().Set(c.value(t.Elem(), depth-1))
		return p
	case reflect.Interface:
		v := reflect.New(t).Elem()
		if c.g.pct(c.nilPct + 10) {
			return v
		}
		d := depth - 1
		if d > 3 {
			d = 3
		}
		var dt reflect.Type
		switch r := c.g.intn(100); {
		case r < 35 && d > 0:
			dt = reflect.PtrTo(c.msgType(d - 1)) // interface holding a pointer to a struct (oneof style)
		case r < 55 && d >= 0:
			dt = c.msgType(d) // interface holding a struct
		case r < 70:
			dt = vkStringT
		default:
			dt = c.wildType(d)
		}
		v.Set(c.value(dt, d))
		return v
	case reflect.Struct:
		sv := reflect.New(t).Elem()
		for i := 0; i < t.NumField(); i++ {
			vkSetField(sv, i, c.value(t.Field(i).Type, depth-1))
		}
		return sv
	case reflect.Slice:
		var n int
		switch r := c.g.intn(100); {
		case r < 8:
			return reflect.Zero(t) // nil slice
		case r < 8+c.nilPct:
			n = 0
		case r < 65:
			n = 1
		case r < 88:
			n = 2
		default:
			n = 3
		}
		if c.big > 0 && n > 0 {
			n, c.big = c.big, 0
		}
		sl := reflect.MakeSlice(t, n, n)
		for i := 0; i < n; i++ {
			sl.Index(i).Set(c.value(t.Elem(), depth-1))
		}
		return sl
	case reflect.Array:
		ar := reflect.New(t).Elem()
		for i := 0; i < t.Len(); i++ {
			ar.Index(i).Set(c.value(t.Elem(), depth-1))
		}
		return ar
	case reflect.Map:
		if c.g.pct(20) {
			return reflect.Zero(t)
		}
		m := reflect.MakeMap(t)
		n := c.g.intn(3)
		for i := 0; i < n; i++ {
			var k reflect.Value
			if t.Key().Kind() == reflect.String {
				k = reflect.ValueOf(c.g.str([]string{"a", "b", "Key", ""}))
			} else {
				k = reflect.ValueOf(c.g.intn(3))
			}
			m.SetMapIndex(k, c.value(t.Elem(), depth-1))
		}
		return m
	default:
		return c.other(t)
	}
}

// ---------------------------------------------------------------- locators
func vkLowerFirst(s string) string {
	if s != "" && s[0] >= 'A' && s[0] <= 'Z' {
		return string(s[0]+32) + s[1:]
	}
	return s
}

// can a string be reached from a value of type t (static approximation)?
func vkReach(t reflect.Type, depth int) bool {
	if depth <= 0 {
		return false
	}
	if t.Kind() == reflect.Ptr {
		t = t.Elem()
	}
	switch t.Kind() {
	case reflect.String:
		return true
	case reflect.Struct:
		for i := 0; i < t.NumField(); i++ {
			ft := t.Field(i).Type
			if ft.Kind() == reflect.Slice {
				ft = ft.Elem()
			}
			if vkReach(ft, depth-1) {
				return true
			}
		}
	}
	return false
}

// derive a path from the shape of the value: follow fields (through one pointer
// / interface, into slice elements) until a string is reached or nothing is left
func vkDerive(g *vkRng, t reflect.Type, v reflect.Value, depth int) []string {
	if depth <= 0 {
		return nil
	}
	if t.Kind() == reflect.Ptr {
		t = t.Elem()
		if v.IsValid() && !v.IsNil() {
			v = v.Elem()
		} else {
			v = reflect.Value{}
		}
	} else if t.Kind() == reflect.Interface {
		if !v.IsValid() || v.IsNil() {
			return nil
		}
		v = v.Elem()
		t = v.Type()
	}
	if t.Kind() != reflect.Struct || t.NumField() == 0 {
		return nil
	}
	var good []int
	for i := 0; i < t.NumField(); i++ {
		ft := t.Field(i).Type
		if ft.Kind() == reflect.Slice {
			ft = ft.Elem()
		}
		if ft.Kind() == reflect.Interface || vkReach(ft, depth) {
			good = append(good, i)
		}
	}
	i := g.intn(t.NumField())
	if len(good) > 0 && g.pct(85) {
		i = good[g.intn(len(good))]
	}
	f := t.Field(i)
	seg := vkLowerFirst(f.Name)
	ft := f.Type
	var fv reflect.Value
	if v.IsValid() {
		fv = v.Field(i)
	}
	if ft.Kind() == reflect.Slice {
		ft = ft.Elem()
		if fv.IsValid() && fv.Len() > 0 {
			fv = fv.Index(g.intn(fv.Len()))
		} else {
			fv = reflect.Value{}
		}
	}
	return append([]string{seg}, vkDerive(g, ft, fv, depth-1)...)
}

var vkSeps = []string{"-", " ", "/", "_", ":", "\t", ","}

// mutate a locator; the second result names the mutation
func vkMutate(g *vkRng, path []string) (string, string) {
	p := make([]string, len(path))
	copy(p, path)
	pick := func() int {
		if len(p) == 0 {
			return -1
		}
		return g.intn(len(p))
	}
	switch g.intn(16) {
	case 0: // too short
		if len(p) > 0 {
			p = p[:len(p)-1]
		}
		return strings.Join(p, "."), "short"
	case 1: // too long
		p = append(p, g.str([]string{"key", "name", "x", "value"}))
		return strings.Join(p, "."), "long"
	case 2: // missing segment in the middle
		if i := pick(); i >= 0 {
			p = append(p[:i], p[i+1:]...)
		}
		return strings.Join(p, "."), "dropseg"
	case 3: // empty segment
		if i := pick(); i >= 0 {
			p[i] = ""
		}
		return strings.Join(p, "."), "emptyseg"
	case 4:
		return strings.Join(p, ".."), "doubledot"
	case 5:
		return "." + strings.Join(p, "."), "leadingdot"
	case 6:
		return strings.Join(p, ".") + ".", "trailingdot"
	case 7: // wrong case: all upper
		if i := pick(); i >= 0 {
			p[i] = strings.ToUpper(p[i])
		}
		return strings.Join(p, "."), "upper"
	case 8: // wrong case: all lower
		if i := pick(); i >= 0 {
			p[i] = strings.ToLower(p[i])
		}
		return strings.Join(p, "."), "lower"
	case 9: // already exported spelling (valid: Title leaves it alone)
		if i := pick(); i >= 0 && p[i] != "" && p[i][0] >= 'a' && p[i][0] <= 'z' {
			p[i] = string(p[i][0]-32) + p[i][1:]
		}
		return strings.Join(p, "."), "exported"
	case 10: // other separator instead of the dot
		return strings.Join(p, g.str(vkSeps)), "othersep"
	case 11: // separator inside a segment (Title upper-cases the letter after it)
		if i := pick(); i >= 0 && len(p[i]) > 1 {
			k := 1 + g.intn(len(p[i])-1)
			p[i] = p[i][:k] + g.str(vkSeps) + p[i][k:]
		}
		return strings.Join(p, "."), "innersep"
	case 12:
		return "", "empty"
	case 13: // unknown field
		if i := pick(); i >= 0 {
			p[i] = g.str([]string{"nope", "keyy", "ke", "_", "1", "key "})
		}
		return strings.Join(p, "."), "unknown"
	case 14: // random bytes
		n := g.intn(6)
		b := make([]byte, n)
		for i := range b {
			b[i] = byte(g.intn(256))
		}
		return string(b), "randombytes"
	default: // non-ASCII letter in front (out of model)
		if i := pick(); i >= 0 {
			p[i] = "\xc3\xa9" + p[i]
		}
		return strings.Join(p, "."), "nonascii"
	}
}

// ---------------------------------------------------------------- fixtures (hand-written types, protobuf messages)
type vkNested struct {
	Key            string
	RepeatedString []string
}

type vkMsg struct {
	Key            string
	NestedField    *vkNested
	RepeatedField  []*vkNested
	RepeatedString []string
	RepeatedInt    []int
}

type vkColor string

type vkUnexp struct {
	_x        string
	_s        []string
	low       string
	_         string
	_p        *vkNested
	Up        string
	sizeCache int32
	_         string
}

// VKInner is exported so that it can be embedded as an exported field.
type VKInner struct {
	Key    string
	Inner2 *vkNested
}

type vkEmbVal struct {
	vkNested
	X string
}

type vkEmbPtr struct {
	*VKInner
	X string
}

type vkEmbShadow struct {
	VKInner
	Key string
}

type vkEmbAmbig struct {
	VKInner
	vkNested
	X string
}

type vkEmbDeep struct {
	Top *vkEmbPtr
	L   []*vkEmbPtr
}

type vkOneof interface{ isVkOneof() }
type vkOneofA struct{ A string }
type vkOneofB struct{ B *vkNested }

func (*vkOneofA) isVkOneof() {}
func (*vkOneofB) isVkOneof() {}

type vkStringer struct{ Key string }

func (vkStringer) String() string { return "stringer" }

type vkIfaceMsg struct {
	I   interface{}
	S   fmt.Stringer
	O   vkOneof
	Err error
	L   []interface{}
}

type vkNamed struct {
	C   vkColor
	Cs  []vkColor
	PS  *string
	PPS **string
	PC  *vkColor
	Arr [2]string
	M   map[string]string
	MM  map[string]*vkNested
	B   []byte
	F   func()
	Ch  chan int
	U   unsafe.Pointer
	LL  [][]string
	LP  []*string
}

type vkFixture struct {
	name  string
	build func(g *vkRng) interface{}
	locs  []string
}

func vkNestedOf(g *vkRng) *vkNested {
	if g.pct(20) {
		return nil
	}
	n := &vkNested{Key: g.str(vkStrings)}
	for i := g.intn(3); i > 0; i-- {
		n.RepeatedString = append(n.RepeatedString, g.str(vkStrings))
	}
	return n
}

func vkMsgOf(g *vkRng) *vkMsg {
	m := &vkMsg{Key: g.str(vkStrings), NestedField: vkNestedOf(g)}
	for i := g.intn(4); i > 0; i-- {
		m.RepeatedField = append(m.RepeatedField, vkNestedOf(g))
	}
	for i := g.intn(3); i > 0; i-- {
		m.RepeatedString = append(m.RepeatedString, g.str(vkStrings))
	}
	for i := g.intn(3); i > 0; i-- {
		m.RepeatedInt = append(m.RepeatedInt, g.intn(10))
	}
	return m
}

func vkApiConfigOf(g *vkRng) *vkpb.ApiConfig {
	c := &vkpb.ApiConfig{}
	if g.pct(70) {
		c.ChannelPool = &vkpb.ChannelPoolConfig{MaxSize: uint32(g.intn(10)), IdleTimeout: uint64(g.intn(100))}
	}
	for i := g.intn(4); i > 0; i-- {
		if g.pct(10) {
			c.Method = append(c.Method, nil)
			continue
		}
		m := &vkpb.MethodConfig{}
		for j := g.intn(3); j > 0; j-- {
			m.Name = append(m.Name, g.str([]string{"/pkg.Svc/Get", "/pkg.Svc/*", "", "m"}))
		}
		if g.pct(75) {
			m.Affinity = &vkpb.AffinityConfig{Command: vkpb.AffinityConfig_Command(g.intn(3)), AffinityKey: g.str([]string{"name", "session.name", ""})}
		}
		c.Method = append(c.Method, m)
	}
	return c
}

func vkInnerOf(g *vkRng) VKInner {
	return VKInner{Key: g.str(vkStrings), Inner2: vkNestedOf(g)}
}

// a linear chain of messages, deep enough for key paths of a dozen segments (fixed-size path buffers,
// depth limits)
type vkDeep struct {
	Next  *vkDeep
	Name  string
	Items []*vkDeep
}

func vkDeepOf(g *vkRng, depth int) *vkDeep {
	if depth == 0 {
		return nil
	}
	d := &vkDeep{Name: "n" + strconv.Itoa(depth), Next: vkDeepOf(g, depth-1)}
	if g.pct(25) {
		d.Items = []*vkDeep{{Name: "i" + strconv.Itoa(depth)}}
	}
	return d
}

func vkDeepLocs() []string {
	var out []string
	for _, k := range []int{6, 7, 8, 9, 10, 12, 15} {
		p := strings.Repeat("next.", k)
		out = append(out, p+"name", p+"name.x", p+"items.name", strings.TrimSuffix(p, "."))
	}
	return out
}

var vkFixtures = []vkFixture{
	{"deep", func(g *vkRng) interface{} { return vkDeepOf(g, []int{7, 9, 10, 11, 13, 16}[g.intn(6)]) }, vkDeepLocs()},
	{"msg", func(g *vkRng) interface{} { return vkMsgOf(g) },
		[]string{"key", "nestedField.key", "repeatedField.key", "repeatedField.repeatedString", "repeatedString", "repeatedInt", "nestedField.repeatedString", "nestedField"}},
	{"msgval", func(g *vkRng) interface{} { return *vkMsgOf(g) }, []string{"key", "repeatedField.key"}},
	{"nilptr", func(g *vkRng) interface{} { return (*vkMsg)(nil) }, []string{"key", "nestedField.key", ""}},
	{"nilmsg", func(g *vkRng) interface{} { return nil }, []string{"key", ""}},
	{"ptrptr", func(g *vkRng) interface{} { m := vkMsgOf(g); return &m }, []string{"key", "repeatedField.key"}},
	{"toplevel", func(g *vkRng) interface{} {
		s := "str"
		switch g.intn(8) {
		case 0:
			return "str"
		case 1:
			return &s
		case 2:
			return 5
		case 3:
			return []string{"a"}
		case 4:
			return []*vkNested{{Key: "k"}}
		case 5:
			return map[string]string{"key": "v"}
		case 6:
			return [1]vkNested{{Key: "k"}}
		default:
			return vkColor("c")
		}
	}, []string{"", "key", "a"}},
	{"unexp", func(g *vkRng) interface{} {
		return &vkUnexp{_x: g.str(vkStrings), _s: []string{"a", "b"}, low: "l", _p: vkNestedOf(g), Up: "up", sizeCache: 3}
	}, []string{"_x", "_s", "low", "_", "_p.key", "up", "sizeCache", "_P.key", "Low"}},
	{"embval", func(g *vkRng) interface{} { return &vkEmbVal{vkNested: *vkNestedOf2(g), X: "x"} },
		[]string{"key", "repeatedString", "vkNested.key", "x", "vkNested"}},
	{"embptr", func(g *vkRng) interface{} {
		e := &vkEmbPtr{X: "x"}
		if g.pct(60) {
			in := vkInnerOf(g)
			e.VKInner = &in
		}
		return e
	}, []string{"key", "inner2.key", "vKInner.key", "x", "vKInner", "inner2.repeatedString"}},
	{"embptrnil", func(g *vkRng) interface{} { return vkEmbPtr{X: "x"} },
		[]string{"key", "inner2.key", "inner2", "vKInner.key", "x"}},
	{"embshadow", func(g *vkRng) interface{} { return &vkEmbShadow{VKInner: vkInnerOf(g), Key: "outer"} },
		[]string{"key", "inner2.key", "vKInner.key"}},
	{"embambig", func(g *vkRng) interface{} {
		return &vkEmbAmbig{VKInner: vkInnerOf(g), vkNested: *vkNestedOf2(g), X: "x"}
	},
		[]string{"key", "inner2.key", "repeatedString", "x"}},
	{"embdeep", func(g *vkRng) interface{} {
		d := &vkEmbDeep{}
		if g.pct(80) {
			d.Top = &vkEmbPtr{X: "t"}
		}
		for i := g.intn(3); i > 0; i-- {
			e := &vkEmbPtr{X: "l"}
			if g.pct(50) {
				in := vkInnerOf(g)
				e.VKInner = &in
			}
			d.L = append(d.L, e)
		}
		return d
	}, []string{"top.key", "l.key", "l.x", "top.x", "l.inner2.key"}},
	{"iface", func(g *vkRng) interface{} {
		m := &vkIfaceMsg{}
		s := "ps"
		is := []interface{}{nil, &vkNested{Key: "ik"}, vkNested{Key: "iv"}, "str", &s, 5, (*vkNested)(nil), []string{"a"}, vkStringer{Key: "sk"}}
		m.I = is[g.intn(len(is))]
		switch g.intn(3) {
		case 0:
			m.S = vkStringer{Key: "sk"}
		case 1:
			m.S = &vkStringer{Key: "psk"}
		}
		switch g.intn(4) {
		case 0:
			m.O = &vkOneofA{A: "a"}
		case 1:
			m.O = &vkOneofB{B: vkNestedOf(g)}
		case 2:
			m.O = (*vkOneofA)(nil)
		}
		if g.pct(30) {
			m.Err = fmt.Errorf("e")
		}
		for i := g.intn(4); i > 0; i-- {
			m.L = append(m.L, is[g.intn(len(is))])
		}
		return m
	}, []string{"i", "i.key", "s.key", "o.a", "o.b.key", "err", "l", "l.key", "o"}},
	{"named", func(g *vkRng) interface{} {
		s := g.str(vkStrings)
		ps := &s
		c := vkColor("blue")
		n := &vkNamed{C: "red", Cs: []vkColor{"r", "g"}, Arr: [2]string{"a", "b"}, M: map[string]string{"key": "v"},
			MM: map[string]*vkNested{"a": {Key: "k"}}, B: []byte("ab"), LL: [][]string{{"a"}, {}}, LP: []*string{ps, nil}}
		if g.pct(70) {
			n.PS = ps
			n.PPS = &ps
			n.PC = &c
		}
		if g.pct(30) {
			n.B = nil
			n.LL = nil
			n.LP = []*string{ps, ps}
		}
		if g.pct(50) {
			n.F = func() {}
			n.Ch = make(chan int)
			n.U = unsafe.Pointer(n)
		}
		return n
	}, []string{"c", "cs", "pS", "pPS", "pC", "arr", "m", "m.key", "mM.a.key", "b", "f", "ch", "u", "lL", "lP"}},
	{"apiconfig", func(g *vkRng) interface{} { return vkApiConfigOf(g) },
		[]string{"method.name", "method.affinity.affinityKey", "method.affinity.command", "channelPool.maxSize", "method.affinity", "channelPool", "method", "state", "sizeCache", "unknownFields", "method.affinity.affinity_key"}},
	{"apiconfig_used", func(g *vkRng) interface{} {
		c := vkApiConfigOf(g)
		if b, err := proto.Marshal(c); err == nil { // initialises the internal message state
			c2 := &vkpb.ApiConfig{}
			if proto.Unmarshal(b, c2) == nil && g.pct(50) {
				return c2
			}
		}
		return c
	}, []string{"method.name", "method.affinity.affinityKey", "state", "state.atomicMessageInfo", "method.state"}},
	{"nilproto", func(g *vkRng) interface{} { return (*vkpb.ApiConfig)(nil) }, []string{"method.name", "channelPool"}},
	{"hello", func(g *vkRng) interface{} {
		r := &vkhw.HelloRequest{Name: g.str(vkStrings)}
		if g.pct(30) {
			_ = r.String()
		}
		return r
	}, []string{"name", "Name", "name.x", "message"}},
	{"helloreply", func(g *vkRng) interface{} { return &vkhw.HelloReply{Message: g.str(vkStrings)} }, []string{"message", "name"}},
}

func vkNestedOf2(g *vkRng) *vkNested {
	for {
		if n := vkNestedOf(g); n != nil {
			return n
		}
	}
}

// ---------------------------------------------------------------- twin types (stateful stream)
// Families of DIFFERENT Go types that print identically under
// reflect.Type.String() ("grpcgcp.vkSession", ...): function-local types with
// the same name declared in different functions, with different field order, a
// field present in one and missing in another, the same field name with string
// / non-string type.  Anything in the implementation that keys leftover state
// by the printed type name (or by the locator) confuses them; the calls are
// made alternately within one multi-event history.
func vkTwinSessionA(g *vkRng) interface{} {
	type vkSession struct {
		Name    string
		Token   string
		Aliases []string
	}
	return &vkSession{Name: "a-name-" + g.str(vkStrings), Token: "a-token", Aliases: []string{"a-a1", "a-a2"}}
}

func vkTwinSessionB(g *vkRng) interface{} {
	type vkSession struct {
		Aliases []string
		Token   string
		Labels  map[string]string
		Name    string
	}
	return &vkSession{Name: "b-name-" + g.str(vkStrings), Token: "b-token", Aliases: []string{"b-a1"}, Labels: map[string]string{"k": "v"}}
}

func vkTwinSessionC(g *vkRng) interface{} {
	type vkSession struct {
		Token string
	}
	return &vkSession{Token: "c-token-" + g.str(vkStrings)}
}

func vkTwinSessionD(g *vkRng) interface{} {
	type vkSession struct {
		Token   int
		Aliases []*string
		Name    *string
		Labels  string
	}
	n := "d-name-" + g.str(vkStrings)
	a := "d-a1"
	return vkSession{Token: 7, Aliases: []*string{&a, nil}, Name: &n, Labels: "d-labels"}
}

func vkTwinReqA(g *vkRng) interface{} {
	type vkNode struct {
		Key string
		Val string
	}
	type vkReq struct {
		Id     string
		Items  []*vkNode
		Parent *vkNode
	}
	r := &vkReq{Id: "a-id", Parent: &vkNode{Key: "a-pk", Val: "a-pv"}}
	for i := g.intn(3); i >= 0; i-- {
		r.Items = append(r.Items, &vkNode{Key: "a-k" + strconv.Itoa(i), Val: "a-v" + strconv.Itoa(i)})
	}
	return r
}

func vkTwinReqB(g *vkRng) interface{} {
	type vkNode struct {
		Val  string
		Key  string
		Tags []string
	}
	type vkReq struct {
		Parent *vkNode
		Id     int64
		Items  []*vkNode
	}
	r := &vkReq{Id: 5}
	if g.pct(70) {
		r.Parent = &vkNode{Key: "b-pk", Val: "b-pv", Tags: []string{"b-pt"}}
	}
	for i := g.intn(3); i > 0; i-- {
		r.Items = append(r.Items, &vkNode{Key: "b-k" + strconv.Itoa(i), Val: "b-v" + strconv.Itoa(i), Tags: []string{"b-t"}})
	}
	return r
}

func vkTwinReqC(g *vkRng) interface{} {
	type vkNode struct {
		Tags []string
		Key  *string
	}
	type vkReq struct {
		Items []vkNode
		Id    string
	}
	k := "c-k-" + g.str(vkStrings)
	return &vkReq{Id: "c-id", Items: []vkNode{{Tags: []string{"c-t1", "c-t2"}, Key: &k}, {Key: &k}}}
}

func vkTwinMixedA(g *vkRng) interface{} {
	type vkMixed struct {
		Key string
		N   int
		L   []string
	}
	return &vkMixed{Key: "a-key-" + g.str(vkStrings), N: 1, L: []string{"a-l1", "a-l2"}}
}

func vkTwinMixedB(g *vkRng) interface{} {
	type vkMixed struct {
		N   string
		Key int
		L   map[string]string
	}
	return &vkMixed{N: "b-n-" + g.str(vkStrings), Key: 2, L: map[string]string{"a": "b"}}
}

func vkTwinMixedC(g *vkRng) interface{} {
	type vkMixed struct {
		L   []string
		Key []string
		N   *string
	}
	n := "c-n"
	m := vkMixed{Key: []string{"c-key1", "c-key2"}, N: &n}
	if g.pct(50) {
		m.L = []string{"c-l1"}
	}
	return m
}

type vkTwinFamily struct {
	members []string // fixture names
	locs    []string
}

var vkTwinFixtures = []vkFixture{
	{"twin.session.a", vkTwinSessionA, []string{"name", "token", "aliases", "labels"}},
	{"twin.session.b", vkTwinSessionB, []string{"name", "token", "aliases", "labels"}},
	{"twin.session.c", vkTwinSessionC, []string{"name", "token", "aliases", "labels"}},
	{"twin.session.d", vkTwinSessionD, []string{"name", "token", "aliases", "labels"}},
	{"twin.req.a", vkTwinReqA, []string{"id", "items.key", "items.val", "items.tags", "parent.key", "parent.val", "parent.tags"}},
	{"twin.req.b", vkTwinReqB, []string{"id", "items.key", "items.val", "items.tags", "parent.key", "parent.val", "parent.tags"}},
	{"twin.req.c", vkTwinReqC, []string{"id", "items.key", "items.val", "items.tags", "parent.key", "parent.val", "parent.tags"}},
	{"twin.mixed.a", vkTwinMixedA, []string{"key", "n", "l"}},
	{"twin.mixed.b", vkTwinMixedB, []string{"key", "n", "l"}},
	{"twin.mixed.c", vkTwinMixedC, []string{"key", "n", "l"}},
}

var vkTwinFamilies = []vkTwinFamily{
	{[]string{"twin.session.a", "twin.session.b", "twin.session.c", "twin.session.d"}, []string{"name", "token", "aliases", "labels"}},
	{[]string{"twin.req.a", "twin.req.b", "twin.req.c"}, []string{"id", "items.key", "items.val", "items.tags", "parent.key", "parent.val", "parent.tags"}},
	{[]string{"twin.mixed.a", "twin.mixed.b", "twin.mixed.c"}, []string{"key", "n", "l"}},
}

func vkFixtureByName(name string) *vkFixture {
	for i := range vkFixtures {
		if vkFixtures[i].name == name {
			return &vkFixtures[i]
		}
	}
	for i := range vkTwinFixtures {
		if vkTwinFixtures[i].name == name {
			return &vkTwinFixtures[i]
		}
	}
	return nil
}

// ---------------------------------------------------------------- running one case
type vkCase struct {
	stream string
	loc    string
	origin string // "G" or "X <name> <seed>"
	msg    interface{}
}

type vkRunner struct {
	w      *bufio.Writer
	stats  map[string]int
	ncases int
	inHist bool // a K-case history is open (events may follow)
}

func (r *vkRunner) count(k string) { r.stats[k]++ }

func vkCall(loc string, msg interface{}) (kind string, keys []string) {
	defer func() {
		if rec := recover(); rec != nil {
			kind, keys = "P", nil
		}
	}()
	ks, err := getAffinityKeysFromMessage(loc, msg)
	if err != nil {
		return "E", ks
	}
	return "O", ks
}

func vkKindName(v reflect.Value) string {
	if !v.IsValid() {
		return "invalid"
	}
	return v.Kind().String()
}

// runKeys runs one case. event=false starts a new history (`H K ...`),
// event=true appends the case to the current history (`K ...`).
func (r *vkRunner) runKeys(c vkCase, event bool) {
	d := &vkDumper{typed: c.origin == "G"}
	v := reflect.ValueOf(c.msg)
	d.value(v, 0)
	kind, keys := vkCall(c.loc, c.msg)
	prefix := "H K"
	if event {
		prefix = "K"
	}
	fmt.Fprintf(r.w, "%s %s %s %s %s ; %s %d", prefix, c.stream, vkHex(c.loc), c.origin, strings.Join(d.toks, " "), kind, len(keys))
	for _, k := range keys {
		fmt.Fprintf(r.w, " %s", vkHex(k))
	}
	fmt.Fprintf(r.w, " ;\n")
	r.inHist = true
	r.ncases++
	stream := c.stream
	r.count("stream:" + stream)
	r.count("outcome:" + stream + ":" + kind)
	if kind == "O" {
		n := len(keys)
		if n > 3 {
			n = 3
		}
		r.count(fmt.Sprintf("okkeys:%d%s", n, map[bool]string{true: "+", false: ""}[len(keys) > 3]))
	}
	r.count("topkind:" + vkKindName(v))
	r.count(fmt.Sprintf("depth:%02d", d.maxDepth))
	r.count(fmt.Sprintf("segments:%d", strings.Count(c.loc, ".")+1))
	if d.pruned > 0 {
		r.count("pruned-state")
	}
}

func (r *vkRunner) runTitle(in string) {
	fmt.Fprintf(r.w, "H T %s ; %s ;\n", vkHex(in), vkHex(strings.Title(in)))
	r.inHist = false
	r.ncases++
	r.count("stream:title")
}

func (r *vkRunner) runSplit(in string) {
	ps := strings.Split(in, ".")
	fmt.Fprintf(r.w, "H S %s ; %d", vkHex(in), len(ps))
	for _, p := range ps {
		fmt.Fprintf(r.w, " %s", vkHex(p))
	}
	fmt.Fprintf(r.w, " ;\n")
	r.inHist = false
	r.ncases++
	r.count("stream:split")
}

// one line of a .hist file (the part before the first ';'): `H K ...`, `H T ...`,
// `H S ...`, or an event `K ...` continuing the history opened by the last `H K`.
func (r *vkRunner) runHistLine(fs []string) (err error) {
	defer func() {
		if rec := recover(); rec != nil {
			err = fmt.Errorf("%v", rec)
		}
	}()
	event := false
	if len(fs) > 0 && fs[0] == "K" {
		if !r.inHist {
			return fmt.Errorf("K event outside a history")
		}
		event = true
		fs = append([]string{"H"}, fs...)
	}
	if len(fs) < 3 || fs[0] != "H" {
		return fmt.Errorf("not a case line")
	}
	switch fs[1] {
	case "T":
		in, e := vkUnhex(fs[2])
		if e != nil {
			return e
		}
		r.runTitle(in)
	case "S":
		in, e := vkUnhex(fs[2])
		if e != nil {
			return e
		}
		r.runSplit(in)
	case "K":
		if len(fs) < 6 {
			return fmt.Errorf("short K line")
		}
		loc, e := vkUnhex(fs[3])
		if e != nil {
			return e
		}
		switch fs[4] {
		case "G":
			p := &vkParser{toks: fs[5:]}
			v := p.value()
			if p.pos != len(p.toks) {
				return fmt.Errorf("trailing tokens")
			}
			var msg interface{}
			if v.IsValid() {
				msg = v.Interface()
			}
			r.runKeys(vkCase{"c", loc, "G", msg}, event)
		case "X":
			if len(fs) < 7 {
				return fmt.Errorf("short X origin")
			}
			fx := vkFixtureByName(fs[5])
			seed, e := strconv.ParseUint(fs[6], 10, 64)
			if fx == nil || e != nil {
				return fmt.Errorf("unknown fixture %q", fs[5])
			}
			r.runKeys(vkCase{"c", loc, "X " + fs[5] + " " + fs[6], fx.build(&vkRng{s: seed})}, event)
		default:
			return fmt.Errorf("bad origin %q", fs[4])
		}
	default:
		return fmt.Errorf("bad case kind %q", fs[1])
	}
	return nil
}

func (r *vkRunner) runHistFile(path string) error {
	f, err := os.Open(path)
	if err != nil {
		return err
	}
	defer f.Close()
	r.inHist = false
	sc := bufio.NewScanner(f)
	sc.Buffer(make([]byte, 1<<22), 1<<22)
	ln := 0
	for sc.Scan() {
		ln++
		line := sc.Text()
		if i := strings.Index(line, ";"); i >= 0 {
			line = line[:i]
		}
		fs := strings.Fields(line)
		if len(fs) == 0 || strings.HasPrefix(fs[0], "#") {
			continue
		}
		if err := r.runHistLine(fs); err != nil {
			return fmt.Errorf("%s:%d: %v", path, ln, err)
		}
	}
	return sc.Err()
}

// ---------------------------------------------------------------- generation
// one round of the random generator: a fixture, or a fresh random type, with
// several values and locators
func (r *vkRunner) genRound(g *vkRng) []vkCase {
	var out []vkCase
	c := &vkGen{g: g, nilPct: []int{0, 5, 15, 15, 30, 50}[g.intn(6)]}
	if g.intn(40) == 0 {
		c.big = []int{17, 33, 65, 130}[g.intn(4)]
	}
	// fixture round?
	if g.pct(22) {
		k := g.intn(len(vkFixtures) + len(vkTwinFixtures)/2)
		var fx *vkFixture
		if k < len(vkFixtures) {
			fx = &vkFixtures[k]
		} else {
			fx = &vkTwinFixtures[g.intn(len(vkTwinFixtures))]
		}
		for k := 0; k < 4; k++ {
			seed := g.next() >> 12
			msg := fx.build(&vkRng{s: seed})
			var path []string
			if g.pct(70) {
				path = strings.Split(fx.locs[g.intn(len(fx.locs))], ".")
			} else if v := reflect.ValueOf(msg); v.IsValid() {
				path = vkDerive(g, v.Type(), v, 7)
			}
			loc := strings.Join(path, ".")
			if g.pct(25) {
				var mut string
				loc, mut = vkMutate(g, path)
				r.count("mutation:" + mut)
			}
			out = append(out, vkCase{"x", loc, fmt.Sprintf("X %s %d", fx.name, seed), msg})
		}
		return out
	}
	// a fresh random type, several values and locators on it
	var t reflect.Type
	func() {
		defer func() {
			if rec := recover(); rec != nil {
				t = nil
				r.count("typegen-rejected")
			}
		}()
		switch x := g.intn(100); {
		case x < 68:
			t = reflect.PtrTo(c.msgType(6))
		case x < 80:
			t = c.msgType(6)
		default:
			t = c.wildType(6)
		}
	}()
	if t == nil {
		return nil
	}
	for k := 0; k < 6; k++ {
		v := c.value(t, 8)
		var msg interface{}
		if !(v.Kind() == reflect.Interface && v.IsNil()) {
			msg = v.Interface()
		}
		path := vkDerive(g, t, v, 8)
		if g.pct(35) {
			loc, mut := vkMutate(g, path)
			r.count("mutation:" + mut)
			out = append(out, vkCase{"m", loc, "G", msg})
		} else {
			out = append(out, vkCase{"v", strings.Join(path, "."), "G", msg})
		}
	}
	return out
}

func vkShuffleStrings(g *vkRng, xs []string) []string {
	p := make([]string, len(xs))
	copy(p, xs)
	for i := len(p) - 1; i > 0; i-- {
		j := g.intn(i + 1)
		p[i], p[j] = p[j], p[i]
	}
	return p
}

// a block of alternating calls on the twin types: for every family and every
// locator, each member of the family in a random order (so that for some
// locators type A is seen first and for others type B), a few locators twice
func vkTwinBlock(g *vkRng) []vkCase {
	var out []vkCase
	for _, fam := range vkTwinFamilies {
		locs := vkShuffleStrings(g, fam.locs)
		locs = append(locs, locs[g.intn(len(locs))], locs[g.intn(len(locs))])
		for _, loc := range locs {
			for _, name := range vkShuffleStrings(g, fam.members) {
				seed := g.next() >> 12
				fx := vkFixtureByName(name)
				l := loc
				if g.pct(10) {
					l, _ = vkMutate(g, strings.Split(loc, "."))
				}
				out = append(out, vkCase{"s", l, fmt.Sprintf("X %s %d", name, seed), fx.build(&vkRng{s: seed})})
			}
		}
	}
	return out
}

// The stateful history: ONE multi-event history, run before anything else in
// the process (so every prefix of it reproduces in a fresh process): twin
// block, a sample of m random cases, twin block, the same m cases again in a
// different order, twin block.  Every event is an ordinary case checked
// against the (pure) model and spec, and equal inputs must give equal results.
func (r *vkRunner) statefulHistory(g *vkRng, m int) {
	var sample []vkCase
	for len(sample) < m {
		sample = append(sample, r.genRound(g)...)
	}
	seq := vkTwinBlock(g)
	seq = append(seq, sample...)
	seq = append(seq, vkTwinBlock(g)...)
	second := make([]vkCase, len(sample))
	copy(second, sample)
	for i := len(second) - 1; i > 0; i-- {
		j := g.intn(i + 1)
		second[i], second[j] = second[j], second[i]
	}
	seq = append(seq, second...)
	seq = append(seq, vkTwinBlock(g)...)
	for i, c := range seq {
		if c.stream != "s" {
			c.stream = "s" + c.stream
		}
		r.runKeys(c, i > 0)
	}
}

func vkRandText(g *vkRng) string {
	alpha := "abcxyzABCXYZ0189__..  --/\t~\x00\x7f"
	if g.pct(15) {
		alpha = "ab."
	}
	n := g.intn(12)
	b := make([]byte, 0, n)
	for i := 0; i < n; i++ {
		if g.pct(3) {
			b = append(b, byte(g.intn(256)))
		} else {
			b = append(b, alpha[g.intn(len(alpha))])
		}
	}
	return string(b)
}

func vkEnvInt(name string, def int) int {
	if v := os.Getenv(name); v != "" {
		if n, err := strconv.Atoi(v); err == nil {
			return n
		}
	}
	return def
}

func TestVerifKeys(t *testing.T) {
	out := os.Getenv("VERIF_OUT")
	if out == "" {
		t.Skip("VERIF_OUT not set")
	}
	f, err := os.Create(out)
	if err != nil {
		t.Fatal(err)
	}
	defer f.Close()
	w := bufio.NewWriterSize(f, 1<<20)
	defer w.Flush()
	r := &vkRunner{w: w, stats: map[string]int{}}
	g := &vkRng{s: uint64(vkEnvInt("VERIF_SEED", 1))}
	n := vkEnvInt("VERIF_N", 0)

	// 0. the stateful history, in a pristine process (before the corpus: a
	// replay of any prefix of it must see the same process state)
	if n > 0 && os.Getenv("VERIF_KEYS_NOSTATEFUL") == "" {
		m := n / 10
		if m > 1000 {
			m = 1000
		}
		r.statefulHistory(g, m)
	}
	// 1. corpus / replay files
	for _, p := range strings.Split(os.Getenv("VERIF_HIST"), ":") {
		if p == "" {
			continue
		}
		paths := []string{p}
		if st, err := os.Stat(p); err == nil && st.IsDir() {
			paths, _ = filepath.Glob(filepath.Join(p, "*.hist"))
			sort.Strings(paths)
		}
		for _, q := range paths {
			if err := r.runHistFile(q); err != nil {
				t.Fatal(err)
			}
		}
	}
	// 2. seeded random cases, one single-case history each; a 10% sample is kept
	var again []vkCase
	base := r.ncases
	for r.ncases-base < n {
		for _, c := range r.genRound(g) {
			r.runKeys(c, false)
			if g.pct(10) {
				again = append(again, c)
			}
		}
	}
	// 3. direct checks of strings.Title / strings.Split against the model
	for i := 0; i < n/10; i++ {
		r.runTitle(vkRandText(g))
		r.runSplit(vkRandText(g))
	}
	// 4. the kept sample once more, in a different order, at the end of the run:
	// the result of a call must not depend on what was extracted before
	for i := len(again) - 1; i > 0; i-- {
		j := g.intn(i + 1)
		again[i], again[j] = again[j], again[i]
	}
	for _, c := range again {
		c.stream = "r"
		r.runKeys(c, false)
	}
	// input distribution
	keys := make([]string, 0, len(r.stats))
	for k := range r.stats {
		keys = append(keys, k)
	}
	sort.Strings(keys)
	var sb strings.Builder
	for _, k := range keys {
		fmt.Fprintf(&sb, "%s %d\n", k, r.stats[k])
	}
	fmt.Fprintf(os.Stderr, "vk: %d cases\n%s", r.ncases, sb.String())
	if sf, err := os.Create(out + ".stats"); err == nil {
		sf.WriteString(sb.String())
		sf.Close()
	}
}
