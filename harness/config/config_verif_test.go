//go:build verif

// Harness for engine D/Config (property C17). Injected into package grpcgcp
// with `go test -tags verif -overlay`; nothing in /repo is changed.
//
// It drives the real ParseConfig, initializeConfig/UpdateClientConnState (on a
// real gcpBalancer built over a fake balancer.ClientConn), makeOpts /
// NewGCPMultiEndpoint / GCPConfig with generated or replayed cases and writes
// one trace line per case (one line per event for balancer histories):
//
//	H P <style> JSON        ; OPTCFG                  ; T<hex text>     valid JSON text (rendered here from an AST)
//	H Q <style> JSON        ; OPTCFG                  ; T<hex text>     same, inputs shaped like known findings PJ1-PJ3
//	H X <class> T<hex text> ; OPTCFG                  ;                 malformed JSON text
//	H R CFG                 ; OPTCFG                  ; - | JSON        protojson.Marshal(cfg) parsed back (+ its AST)
//	H B                     ; dmin dmax dstreams      ;                 new balancer (outputs: the package's default constants)
//	  U <mode> <#addrs> <fail> [CFG] ; err attempts created updaddr same ; UOBS   one UpdateClientConnState
//	  Z                     ;                         ; UOBS            overwrite every message passed in so far
//	  S <n> <ready>         ;                         ; UOBS            n pool connections report Shutdown (after Ready if ready=1)
//	H G OPTCFG              ; err same fresh          ; OPTCFG x4       NewGCPMultiEndpoint + GCPConfig()
//
// The token grammar is documented in ocaml/config/config_driver_body.ml.
package grpcgcp

import (
	"bufio"
	"bytes"
	"context"
	"encoding/hex"
	"encoding/json"
	"errors"
	"fmt"
	"io/ioutil"
	"net"
	"os"
	"path/filepath"
	"sort"
	"strconv"
	"strings"
	"testing"
	"unicode/utf8"

	"google.golang.org/grpc"
	"google.golang.org/grpc/balancer"
	"google.golang.org/grpc/connectivity"
	"google.golang.org/grpc/credentials/insecure"
	"google.golang.org/grpc/grpclog"
	"google.golang.org/grpc/resolver"
	"google.golang.org/grpc/serviceconfig"
	"google.golang.org/protobuf/encoding/protojson"
	"google.golang.org/protobuf/proto"

	"github.com/GoogleCloudPlatform/grpc-gcp-go/grpcgcp/multiendpoint"

	pb "github.com/GoogleCloudPlatform/grpc-gcp-go/grpcgcp/grpc_gcp"
)

// ---------------------------------------------------------------- PRNG
type vcRng struct{ s uint64 }

func (r *vcRng) next() uint64 {
	r.s += 0x9E3779B97F4A7C15
	z := r.s
	z = (z ^ (z >> 30)) * 0xBF58476D1CE4E5B9
	z = (z ^ (z >> 27)) * 0x94D049BB133111EB
	return z ^ (z >> 31)
}
func (r *vcRng) intn(n int) int { return int(r.next() % uint64(n)) }
func (r *vcRng) chance(n int) bool {
	return r.intn(n) == 0
}
func (r *vcRng) pickS(xs []string) string { return xs[r.intn(len(xs))] }

// ---------------------------------------------------------------- JSON AST
type vcJSON struct {
	kind byte // n t f N S A O
	raw  []byte
	arr  []*vcJSON
	keys [][]byte
	vals []*vcJSON
}

func vcNull() *vcJSON            { return &vcJSON{kind: 'n'} }
func vcBool(b bool) *vcJSON {
	if b {
		return &vcJSON{kind: 't'}
	}
	return &vcJSON{kind: 'f'}
}
func vcNum(lex string) *vcJSON   { return &vcJSON{kind: 'N', raw: []byte(lex)} }
func vcStr(s string) *vcJSON     { return &vcJSON{kind: 'S', raw: []byte(s)} }
func vcArr(xs ...*vcJSON) *vcJSON { return &vcJSON{kind: 'A', arr: xs} }
func vcObj() *vcJSON             { return &vcJSON{kind: 'O'} }
func (o *vcJSON) add(k string, v *vcJSON) {
	o.keys = append(o.keys, []byte(k))
	o.vals = append(o.vals, v)
}

func (j *vcJSON) tokens(sb *strings.Builder) {
	switch j.kind {
	case 'n', 't', 'f':
		sb.WriteByte(' ')
		sb.WriteByte(j.kind)
	case 'N':
		sb.WriteString(" N" + hex.EncodeToString(j.raw))
	case 'S':
		sb.WriteString(" S" + hex.EncodeToString(j.raw))
	case 'A':
		fmt.Fprintf(sb, " A%d", len(j.arr))
		for _, x := range j.arr {
			x.tokens(sb)
		}
	case 'O':
		fmt.Fprintf(sb, " O%d", len(j.keys))
		for i := range j.keys {
			sb.WriteString(" S" + hex.EncodeToString(j.keys[i]))
			j.vals[i].tokens(sb)
		}
	}
}

func vcJSONTokens(j *vcJSON) string {
	var sb strings.Builder
	j.tokens(&sb)
	return strings.TrimSpace(sb.String())
}

func (j *vcJSON) size() int {
	n := 1
	for _, x := range j.arr {
		n += x.size()
	}
	for _, x := range j.vals {
		n += 1 + x.size()
	}
	return n
}

// token reader shared by every parser below
type vcToks struct {
	t   []string
	i   int
	bad bool
}

func (t *vcToks) next() string {
	if t.i >= len(t.t) {
		t.bad = true
		return ""
	}
	t.i++
	return t.t[t.i-1]
}
func (t *vcToks) peek() string {
	if t.i >= len(t.t) {
		return ""
	}
	return t.t[t.i]
}
func (t *vcToks) num() int64 {
	v, err := strconv.ParseInt(t.next(), 10, 64)
	if err != nil {
		t.bad = true
	}
	return v
}
func (t *vcToks) unum() uint64 {
	v, err := strconv.ParseUint(t.next(), 10, 64)
	if err != nil {
		t.bad = true
	}
	return v
}
func (t *vcToks) hexAfter(prefix byte) []byte {
	s := t.next()
	if len(s) == 0 || s[0] != prefix {
		t.bad = true
		return nil
	}
	b, err := hex.DecodeString(s[1:])
	if err != nil {
		t.bad = true
	}
	return b
}

func vcParseJSONTokens(t *vcToks) *vcJSON {
	s := t.next()
	if s == "" {
		t.bad = true
		return vcNull()
	}
	switch s[0] {
	case 'n':
		return vcNull()
	case 't':
		return vcBool(true)
	case 'f':
		return vcBool(false)
	case 'N', 'S':
		b, err := hex.DecodeString(s[1:])
		if err != nil {
			t.bad = true
		}
		return &vcJSON{kind: s[0], raw: b}
	case 'A':
		k, err := strconv.Atoi(s[1:])
		if err != nil || k < 0 {
			t.bad = true
			return vcNull()
		}
		a := &vcJSON{kind: 'A'}
		for i := 0; i < k && !t.bad; i++ {
			a.arr = append(a.arr, vcParseJSONTokens(t))
		}
		return a
	case 'O':
		k, err := strconv.Atoi(s[1:])
		if err != nil || k < 0 {
			t.bad = true
			return vcNull()
		}
		o := &vcJSON{kind: 'O'}
		for i := 0; i < k && !t.bad; i++ {
			o.keys = append(o.keys, t.hexAfter('S'))
			o.vals = append(o.vals, vcParseJSONTokens(t))
		}
		return o
	}
	t.bad = true
	return vcNull()
}

// ---------------------------------------------------------------- AST -> text
// style 0 is compact; any other style seeds the choices of white space and
// string escapes. Number lexemes are written verbatim.
type vcRender struct {
	g     vcRng
	plain bool
	out   bytes.Buffer
}

func (r *vcRender) ws() {
	if r.plain {
		return
	}
	for r.g.intn(4) == 0 {
		r.out.WriteByte(" \n\t\r"[r.g.intn(4)])
	}
}

func (r *vcRender) hex4(v rune) {
	s := fmt.Sprintf("%04x", v)
	if !r.plain && r.g.intn(2) == 0 {
		s = strings.ToUpper(s)
	}
	r.out.WriteString("\\u" + s)
}

func (r *vcRender) str(b []byte) {
	r.out.WriteByte('"')
	for len(b) > 0 {
		c, n := utf8.DecodeRune(b)
		if c == utf8.RuneError && n == 1 {
			r.out.WriteByte(b[0]) // not produced by the generators; kept verbatim on replay
			b = b[1:]
			continue
		}
		b = b[n:]
		esc := !r.plain && r.g.intn(12) == 0
		switch {
		case c == '"' || c == '\\':
			if esc {
				r.hex4(c)
			} else {
				r.out.WriteByte('\\')
				r.out.WriteByte(byte(c))
			}
		case c < 0x20:
			short := map[rune]byte{'\b': 'b', '\f': 'f', '\n': 'n', '\r': 'r', '\t': 't'}
			if s, ok := short[c]; ok && !esc {
				r.out.WriteByte('\\')
				r.out.WriteByte(s)
			} else {
				r.hex4(c)
			}
		case c == '/' && esc:
			r.out.WriteString("\\/")
		case esc && c < 0x10000:
			r.hex4(c)
		case esc:
			c -= 0x10000
			r.hex4(0xd800 + (c>>10)&0x3ff)
			r.hex4(0xdc00 + c&0x3ff)
		default:
			r.out.WriteRune(c)
		}
	}
	r.out.WriteByte('"')
}

func (r *vcRender) value(j *vcJSON) {
	switch j.kind {
	case 'n':
		r.out.WriteString("null")
	case 't':
		r.out.WriteString("true")
	case 'f':
		r.out.WriteString("false")
	case 'N':
		r.out.Write(j.raw)
	case 'S':
		r.str(j.raw)
	case 'A':
		r.out.WriteByte('[')
		r.ws()
		for i, x := range j.arr {
			if i > 0 {
				r.out.WriteByte(',')
				r.ws()
			}
			r.value(x)
			r.ws()
		}
		r.out.WriteByte(']')
	case 'O':
		r.out.WriteByte('{')
		r.ws()
		for i := range j.keys {
			if i > 0 {
				r.out.WriteByte(',')
				r.ws()
			}
			r.str(j.keys[i])
			r.ws()
			r.out.WriteByte(':')
			r.ws()
			r.value(j.vals[i])
			r.ws()
		}
		r.out.WriteByte('}')
	}
}

func vcRenderJSON(j *vcJSON, style uint64) []byte {
	r := &vcRender{g: vcRng{s: style}, plain: style == 0}
	r.ws()
	r.value(j)
	r.ws()
	return r.out.Bytes()
}

// ---------------------------------------------------------------- text -> AST
// Used on protojson.Marshal's output and to self-check the renderer. Number
// lexemes are kept verbatim (the maximal run of [-+.eE0-9]).
type vcParser struct {
	b   []byte
	i   int
	bad bool
}

func (p *vcParser) ws() {
	for p.i < len(p.b) && strings.IndexByte(" \n\t\r", p.b[p.i]) >= 0 {
		p.i++
	}
}

func (p *vcParser) lit(s string) bool {
	if bytes.HasPrefix(p.b[p.i:], []byte(s)) {
		p.i += len(s)
		return true
	}
	p.bad = true
	return false
}

func (p *vcParser) hex4() rune {
	if p.i+4 > len(p.b) {
		p.bad = true
		return 0
	}
	v, err := strconv.ParseUint(string(p.b[p.i:p.i+4]), 16, 16)
	if err != nil {
		p.bad = true
	}
	p.i += 4
	return rune(v)
}

func (p *vcParser) str() []byte {
	var out []byte
	if p.i >= len(p.b) || p.b[p.i] != '"' {
		p.bad = true
		return nil
	}
	p.i++
	for p.i < len(p.b) {
		c := p.b[p.i]
		switch {
		case c == '"':
			p.i++
			return out
		case c == '\\':
			p.i++
			if p.i >= len(p.b) {
				p.bad = true
				return nil
			}
			e := p.b[p.i]
			p.i++
			switch e {
			case '"', '\\', '/':
				out = append(out, e)
			case 'b':
				out = append(out, '\b')
			case 'f':
				out = append(out, '\f')
			case 'n':
				out = append(out, '\n')
			case 'r':
				out = append(out, '\r')
			case 't':
				out = append(out, '\t')
			case 'u':
				r := p.hex4()
				if r >= 0xd800 && r < 0xdc00 {
					if !p.lit("\\u") {
						return nil
					}
					r2 := p.hex4()
					if r2 < 0xdc00 || r2 > 0xdfff {
						p.bad = true
						return nil
					}
					r = 0x10000 + (r-0xd800)<<10 + (r2 - 0xdc00)
				} else if r >= 0xdc00 && r <= 0xdfff {
					p.bad = true
					return nil
				}
				var buf [4]byte
				n := utf8.EncodeRune(buf[:], r)
				out = append(out, buf[:n]...)
			default:
				p.bad = true
				return nil
			}
		case c < 0x20:
			p.bad = true
			return nil
		default:
			out = append(out, c)
			p.i++
		}
	}
	p.bad = true
	return nil
}

func (p *vcParser) value(depth int) *vcJSON {
	p.ws()
	if p.i >= len(p.b) || depth > 50 {
		p.bad = true
		return vcNull()
	}
	switch c := p.b[p.i]; {
	case c == 'n':
		p.lit("null")
		return vcNull()
	case c == 't':
		p.lit("true")
		return vcBool(true)
	case c == 'f':
		p.lit("false")
		return vcBool(false)
	case c == '"':
		return &vcJSON{kind: 'S', raw: p.str()}
	case c == '-' || (c >= '0' && c <= '9'):
		st := p.i
		for p.i < len(p.b) && strings.IndexByte("-+.eE0123456789", p.b[p.i]) >= 0 {
			p.i++
		}
		return &vcJSON{kind: 'N', raw: append([]byte(nil), p.b[st:p.i]...)}
	case c == '[':
		p.i++
		a := &vcJSON{kind: 'A'}
		p.ws()
		if p.i < len(p.b) && p.b[p.i] == ']' {
			p.i++
			return a
		}
		for !p.bad {
			a.arr = append(a.arr, p.value(depth+1))
			p.ws()
			if p.i < len(p.b) && p.b[p.i] == ',' {
				p.i++
				continue
			}
			if p.i < len(p.b) && p.b[p.i] == ']' {
				p.i++
				return a
			}
			p.bad = true
		}
		return a
	case c == '{':
		p.i++
		o := &vcJSON{kind: 'O'}
		p.ws()
		if p.i < len(p.b) && p.b[p.i] == '}' {
			p.i++
			return o
		}
		for !p.bad {
			p.ws()
			k := p.str()
			p.ws()
			if p.i >= len(p.b) || p.b[p.i] != ':' {
				p.bad = true
				return o
			}
			p.i++
			o.keys = append(o.keys, k)
			o.vals = append(o.vals, p.value(depth+1))
			p.ws()
			if p.i < len(p.b) && p.b[p.i] == ',' {
				p.i++
				continue
			}
			if p.i < len(p.b) && p.b[p.i] == '}' {
				p.i++
				return o
			}
			p.bad = true
		}
		return o
	}
	p.bad = true
	return vcNull()
}

func vcParseText(b []byte) (*vcJSON, bool) {
	p := &vcParser{b: b}
	v := p.value(0)
	p.ws()
	if p.i != len(p.b) {
		p.bad = true
	}
	return v, !p.bad
}

// ---------------------------------------------------------------- config <-> tokens
func vcS(s string) string { return "S" + hex.EncodeToString([]byte(s)) }

func vcCfgTokens(c *pb.ApiConfig) string {
	if c == nil {
		return "-"
	}
	var sb strings.Builder
	sb.WriteString("C")
	if p := c.ChannelPool; p == nil {
		sb.WriteString(" p0")
	} else {
		fb := 0
		if p.FallbackToReady {
			fb = 1
		}
		fmt.Fprintf(&sb, " p1 %d %d %d %d %d %d %d %d", p.MaxSize, p.IdleTimeout, p.MaxConcurrentStreamsLowWatermark,
			p.MinSize, fb, p.UnresponsiveDetectionMs, p.UnresponsiveCalls, int32(p.BindPickStrategy))
	}
	fmt.Fprintf(&sb, " %d", len(c.Method))
	for _, m := range c.Method {
		if m == nil {
			sb.WriteString(" m 0 a0") // a nil entry is an empty entry (proto.Equal, proto.Clone, protojson agree)
			continue
		}
		fmt.Fprintf(&sb, " m %d", len(m.Name))
		for _, n := range m.Name {
			sb.WriteString(" " + vcS(n))
		}
		if a := m.Affinity; a == nil {
			sb.WriteString(" a0")
		} else {
			fmt.Fprintf(&sb, " a1 %d %s", int32(a.Command), vcS(a.AffinityKey))
		}
	}
	return sb.String()
}

func vcParseCfgTokens(t *vcToks) *pb.ApiConfig {
	if t.next() != "C" {
		t.bad = true
		return nil
	}
	c := &pb.ApiConfig{}
	switch t.next() {
	case "p0":
	case "p1":
		c.ChannelPool = &pb.ChannelPoolConfig{
			MaxSize:                          uint32(t.unum()),
			IdleTimeout:                      t.unum(),
			MaxConcurrentStreamsLowWatermark: uint32(t.unum()),
			MinSize:                          uint32(t.unum()),
			FallbackToReady:                  t.num() != 0,
			UnresponsiveDetectionMs:          uint32(t.unum()),
			UnresponsiveCalls:                uint32(t.unum()),
			BindPickStrategy:                 pb.ChannelPoolConfig_BindPickStrategy(int32(t.num())),
		}
	default:
		t.bad = true
		return nil
	}
	nm := int(t.num())
	for i := 0; i < nm && !t.bad; i++ {
		if t.next() != "m" {
			t.bad = true
			return nil
		}
		m := &pb.MethodConfig{}
		nn := int(t.num())
		for k := 0; k < nn && !t.bad; k++ {
			m.Name = append(m.Name, string(t.hexAfter('S')))
		}
		switch t.next() {
		case "a0":
		case "a1":
			m.Affinity = &pb.AffinityConfig{Command: pb.AffinityConfig_Command(int32(t.num())), AffinityKey: string(t.hexAfter('S'))}
		default:
			t.bad = true
		}
		c.Method = append(c.Method, m)
	}
	return c
}

func vcParseOptCfgTokens(t *vcToks) *pb.ApiConfig {
	if t.peek() == "-" {
		t.next()
		return nil
	}
	return vcParseCfgTokens(t)
}

// never equal to anything the model computes
const vcPanicCfg = "C p1 -7 -7 -7 -7 0 -7 -7 -7 0"

// ---------------------------------------------------------------- real entry points
var vcOrig balancer.Builder // the package's own builder, fetched before the spy is registered

// vcParse calls the real ParseConfig, directly and through the registered
// builder's ConfigParser, and dumps the result.
func vcParse(text []byte) (res string) {
	defer func() {
		if r := recover(); r != nil {
			res = vcPanicCfg
		}
	}()
	in := append([]byte(nil), text...)
	c1, err1 := (&gcpBalancerBuilder{}).ParseConfig(json.RawMessage(in))
	c2, err2 := vcOrig.(balancer.ConfigParser).ParseConfig(json.RawMessage(append([]byte(nil), text...)))
	if !bytes.Equal(in, text) {
		return vcPanicCfg // the parser wrote into its input
	}
	if (err1 == nil) != (err2 == nil) {
		return vcPanicCfg
	}
	if err1 != nil {
		return "-"
	}
	g1, ok1 := c1.(*GCPBalancerConfig)
	g2, ok2 := c2.(*GCPBalancerConfig)
	if !ok1 || !ok2 || g1 == nil || g2 == nil || g1.ApiConfig == nil || g2.ApiConfig == nil {
		return vcPanicCfg
	}
	t1, t2 := vcCfgTokens(g1.ApiConfig), vcCfgTokens(g2.ApiConfig)
	if t1 != t2 || !proto.Equal(g1.ApiConfig, g2.ApiConfig) {
		return vcPanicCfg
	}
	return t1
}

// fake balancer.ClientConn / SubConn: counts everything; refuses to create a
// SubConn only when the history says so (fail) or when there is no address
type vcCC struct {
	attempts, created, updAddr, connects int
	fail                                bool
	live                                []*vcSC
}

func (c *vcCC) NewSubConn(a []resolver.Address, o balancer.NewSubConnOptions) (balancer.SubConn, error) {
	c.attempts++
	if c.fail || len(a) == 0 {
		return nil, errors.New("vc: SubConn creation refused")
	}
	c.created++
	sc := &vcSC{cc: c}
	c.live = append(c.live, sc)
	return sc, nil
}
func (c *vcCC) RemoveSubConn(balancer.SubConn)                       {}
func (c *vcCC) UpdateAddresses(balancer.SubConn, []resolver.Address) {}
func (c *vcCC) UpdateState(balancer.State)                           {}
func (c *vcCC) ResolveNow(resolver.ResolveNowOptions)                {}
func (c *vcCC) Target() string                                       { return "vc" }

type vcSC struct{ cc *vcCC }

func (s *vcSC) UpdateAddresses([]resolver.Address) { s.cc.updAddr++ }
func (s *vcSC) Connect()                           { s.cc.connects++ }
func (s *vcSC) GetOrBuildProducer(balancer.ProducerBuilder) (balancer.Producer, func()) {
	return nil, func() {}
}

type vcForeignCfg struct {
	serviceconfig.LoadBalancingConfig
}

// overwrite every field reachable from the message, in place
func vcMutate(c *pb.ApiConfig) {
	if c == nil {
		return
	}
	if p := c.ChannelPool; p != nil {
		p.MaxSize += 7
		p.MinSize += 3
		p.IdleTimeout += 11
		p.MaxConcurrentStreamsLowWatermark += 13
		p.FallbackToReady = !p.FallbackToReady
		p.UnresponsiveDetectionMs += 17
		p.UnresponsiveCalls += 19
		p.BindPickStrategy += 1
	} else {
		c.ChannelPool = &pb.ChannelPoolConfig{MaxSize: 77, MinSize: 3}
	}
	for _, m := range c.Method {
		if m == nil {
			continue
		}
		for i := range m.Name {
			m.Name[i] = "mutated/" + m.Name[i]
		}
		m.Name = append(m.Name, "mutated/extra")
		if m.Affinity != nil {
			m.Affinity.AffinityKey = "mutated." + m.Affinity.AffinityKey
			m.Affinity.Command += 1
		} else {
			m.Affinity = &pb.AffinityConfig{AffinityKey: "mutated"}
		}
	}
	for i := range c.Method {
		if c.Method[i] == nil {
			c.Method[i] = &pb.MethodConfig{Name: []string{"mutated/nil"}, Affinity: &pb.AffinityConfig{AffinityKey: "mutated"}}
		}
	}
	c.Method = append(c.Method, &pb.MethodConfig{Name: []string{"mutated/appended"}, Affinity: &pb.AffinityConfig{Command: 1, AffinityKey: "mutated"}})
}

type vcBal struct {
	gb     *gcpBalancer
	cc     *vcCC
	passed []*pb.ApiConfig
}

func vcNewBal() *vcBal {
	cc := &vcCC{}
	gb := vcOrig.Build(cc, balancer.BuildOptions{}).(*gcpBalancer)
	return &vcBal{gb: gb, cc: cc}
}

func (b *vcBal) obs() string {
	var sb strings.Builder
	if b.gb.cfg == nil || b.gb.cfg.ApiConfig == nil {
		sb.WriteString("-")
	} else {
		sb.WriteString(vcCfgTokens(b.gb.cfg.ApiConfig))
	}
	keys := make([]string, 0, len(b.gb.methodCfg))
	for k := range b.gb.methodCfg {
		keys = append(keys, k)
	}
	sort.Strings(keys)
	fmt.Fprintf(&sb, " %d", len(keys))
	for _, k := range keys {
		a := b.gb.methodCfg[k]
		if a == nil {
			fmt.Fprintf(&sb, " %s -99 S", vcS(k))
		} else {
			fmt.Fprintf(&sb, " %s %d %s", vcS(k), int32(a.Command), vcS(a.AffinityKey))
		}
	}
	u := 0
	if b.gb.unresponsiveDetection {
		u = 1
	}
	fmt.Fprintf(&sb, " %d %d", u, len(b.gb.scRefs))
	return sb.String()
}

// one UpdateClientConnState; returns "outs ; obs"
func (b *vcBal) update(mode, naddr int, fail bool, cfg *pb.ApiConfig) (line string) {
	defer func() {
		b.cc.fail = false
		if r := recover(); r != nil {
			line = "1 -1 -1 -1 0 ; - 0 0 0"
		}
	}()
	var bc serviceconfig.LoadBalancingConfig
	switch mode {
	case 0:
		bc = nil
	case 1:
		bc = (*GCPBalancerConfig)(nil)
	case 2:
		bc = &GCPBalancerConfig{}
	case 3:
		bc = &GCPBalancerConfig{ApiConfig: cfg}
		b.passed = append(b.passed, cfg)
	case 4:
		bc = vcForeignCfg{}
	}
	var snap *pb.ApiConfig
	before := vcCfgTokens(cfg)
	if cfg != nil {
		snap = proto.Clone(cfg).(*pb.ApiConfig)
	}
	var addrs []resolver.Address
	for i := 0; i < naddr; i++ {
		addrs = append(addrs, resolver.Address{Addr: fmt.Sprintf("vc:%d", i+1)})
	}
	b.cc.fail = fail
	a0, c0, u0 := b.cc.attempts, b.cc.created, b.cc.updAddr
	err := b.gb.UpdateClientConnState(balancer.ClientConnState{
		ResolverState:  resolver.State{Addresses: addrs},
		BalancerConfig: bc,
	})
	same := 1
	if cfg != nil && (!proto.Equal(snap, cfg) || before != vcCfgTokens(cfg)) {
		same = 0
	}
	e := 0
	if err != nil {
		e = 1
	}
	return fmt.Sprintf("%d %d %d %d %d ; %s", e, b.cc.attempts-a0, b.cc.created-c0, b.cc.updAddr-u0, same, b.obs())
}

// the first n connections still in the pool report Shutdown (after Ready if asked)
func (b *vcBal) shutdown(n int, ready bool) (obs string) {
	defer func() {
		if r := recover(); r != nil {
			obs = "- 0 0 -1"
		}
	}()
	var rest []*vcSC
	for _, sc := range b.cc.live {
		if _, in := b.gb.scRefs[sc]; !in || n <= 0 {
			if in {
				rest = append(rest, sc)
			}
			continue
		}
		n--
		if ready {
			b.gb.UpdateSubConnState(sc, balancer.SubConnState{ConnectivityState: connectivity.Ready})
		}
		b.gb.UpdateSubConnState(sc, balancer.SubConnState{ConnectivityState: connectivity.Shutdown})
	}
	b.cc.live = rest
	return b.obs()
}

func (b *vcBal) mutateAll() string {
	for _, c := range b.passed {
		vcMutate(c)
	}
	return b.obs()
}

// spy registered under the balancer's name: records the JSON grpc hands to
// ParseConfig while it validates the default service config built by makeOpts
type vcSpy struct {
	orig balancer.Builder
	seen [][]byte
}

func (s *vcSpy) Build(cc balancer.ClientConn, o balancer.BuildOptions) balancer.Balancer {
	return s.orig.Build(cc, o)
}
func (s *vcSpy) Name() string { return s.orig.Name() }
func (s *vcSpy) ParseConfig(j json.RawMessage) (serviceconfig.LoadBalancingConfig, error) {
	s.seen = append(s.seen, append([]byte(nil), j...))
	return s.orig.(balancer.ConfigParser).ParseConfig(j)
}

var vcTheSpy *vcSpy

func vcDial(ctx context.Context, target string, dopts ...grpc.DialOption) (*grpc.ClientConn, error) {
	o := append([]grpc.DialOption{}, dopts...)
	o = append(o, grpc.WithTransportCredentials(insecure.NewCredentials()),
		grpc.WithContextDialer(func(context.Context, string) (net.Conn, error) {
			return nil, errors.New("vc: no network in the harness")
		}))
	return grpc.Dial(target, o...)
}

// NewGCPMultiEndpoint + GCPConfig(); returns "outs ; obs"
func vcGcp(in *pb.ApiConfig) (line string) {
	defer func() {
		if r := recover(); r != nil {
			line = "1 0 0 ; - - - -"
		}
	}()
	before := vcCfgTokens(in)
	var snap *pb.ApiConfig
	if in != nil {
		snap = proto.Clone(in).(*pb.ApiConfig)
	}
	vcTheSpy.seen = nil
	gme, err := NewGCPMultiEndpoint(&GCPMultiEndpointOptions{
		GRPCgcpConfig:  in,
		MultiEndpoints: map[string]*multiendpoint.MultiEndpointOptions{"d": {Endpoints: []string{"passthrough:///vc"}}},
		Default:        "d",
		DialFunc:       vcDial,
	})
	if err != nil {
		return "1 0 0 ; - - - -"
	}
	defer gme.Close()
	same := 1
	if in != nil && (!proto.Equal(snap, in) || before != vcCfgTokens(in)) {
		same = 0
	}
	fresh := 1
	r1 := gme.GCPConfig()
	t1 := vcCfgTokens(r1)
	if in != nil && (r1 == in || r1 == gme.gcpConfig) {
		fresh = 0
	}
	vcMutate(r1)
	r2 := gme.GCPConfig()
	t2 := vcCfgTokens(r2)
	if in != nil && (r2 == in || r2 == r1 || r2 == gme.gcpConfig) {
		fresh = 0
	}
	vcMutate(in)
	r3 := gme.GCPConfig()
	t3 := vcCfgTokens(r3)
	svc := "-"
	if len(vcTheSpy.seen) >= 1 {
		all := true
		for _, s := range vcTheSpy.seen[1:] {
			all = all && bytes.Equal(s, vcTheSpy.seen[0])
		}
		if all {
			svc = vcParse(vcTheSpy.seen[0])
		}
	}
	return fmt.Sprintf("0 %d %d ; %s %s %s %s", same, fresh, t1, t2, t3, svc)
}

// ---------------------------------------------------------------- generators
var vcNames = []string{"/pkg.Svc/Get", "/pkg.Svc/Put", "/pkg.Svc/Del", "/pkg.Svc/*", "", "a", "b",
	"é\U0001F600", "q\"uo\\te", "line\nbreak\ttab", "\x7f\x01", "/s/</script>&"}
var vcKeys = []string{"", "name", "f.a", "session.name", "k\"", "ü"}

var vcU32 = []uint64{1, 2, 3, 4, 5, 7, 10, 99, 100, 101, 1000, 65536, 1 << 31, 1<<32 - 2, 1<<32 - 1}
var vcU64 = []uint64{1, 2, 60, 3600, 1 << 32, 1<<53 - 1, 1 << 53, 1<<53 + 1, 1 << 63, 1<<64 - 2, 1<<64 - 1}
var vcEnum = []int32{1, 2, 3, 7, -1, 2147483647, -2147483648}

func vcGenU32(g *vcRng) uint32 {
	switch c := g.intn(10); {
	case c < 4:
		return 0
	case c < 9:
		return uint32(vcU32[g.intn(len(vcU32))])
	}
	return uint32(g.next())
}

func vcGenCfg(g *vcRng, smallMin bool) *pb.ApiConfig {
	c := &pb.ApiConfig{}
	switch k := g.intn(10); {
	case k < 2:
	case k < 3:
		c.ChannelPool = &pb.ChannelPoolConfig{}
	default:
		p := &pb.ChannelPoolConfig{
			MaxSize:                          vcGenU32(g),
			MaxConcurrentStreamsLowWatermark: vcGenU32(g),
			MinSize:                          vcGenU32(g),
			FallbackToReady:                  g.intn(2) == 0,
			UnresponsiveDetectionMs:          vcGenU32(g),
			UnresponsiveCalls:                vcGenU32(g),
		}
		if g.intn(2) == 0 {
			p.IdleTimeout = vcU64[g.intn(len(vcU64))]
			if g.chance(6) {
				p.IdleTimeout = g.next()
			}
		}
		if g.intn(2) == 0 {
			p.BindPickStrategy = pb.ChannelPoolConfig_BindPickStrategy(vcEnum[g.intn(len(vcEnum))])
		}
		if smallMin {
			p.MinSize = []uint32{0, 0, 1, 1, 2, 3, 4, 5, 17, 50}[g.intn(10)]
		}
		c.ChannelPool = p
	}
	nm := []int{0, 0, 1, 1, 2, 3, 4, 6}[g.intn(8)]
	if nm == 0 && g.chance(3) {
		c.Method = []*pb.MethodConfig{}
	}
	for i := 0; i < nm; i++ {
		if g.chance(20) {
			c.Method = append(c.Method, nil)
			continue
		}
		m := &pb.MethodConfig{}
		switch k := g.intn(10); {
		case k < 1:
		case k < 2:
			m.Name = []string{}
		default:
			nn := 1 + g.intn(3)
			for j := 0; j < nn; j++ {
				m.Name = append(m.Name, vcNames[g.intn(len(vcNames))])
			}
		}
		switch k := g.intn(10); {
		case k < 2:
		case k < 3:
			m.Affinity = &pb.AffinityConfig{}
		default:
			m.Affinity = &pb.AffinityConfig{
				Command:     pb.AffinityConfig_Command([]int32{0, 1, 2, 1, 2, 5, -1}[g.intn(7)]),
				AffinityKey: vcKeys[g.intn(len(vcKeys))],
			}
		}
		c.Method = append(c.Method, m)
	}
	return c
}

// --- variant encoder: a config as one of its many JSON spellings, now and then wrong
type vcEnc struct {
	g *vcRng
}

func vcTrimZeros(s string) (string, int) {
	k := 0
	for len(s) > 1 && s[len(s)-1] == '0' {
		s = s[:len(s)-1]
		k++
	}
	return s, k
}

func (e *vcEnc) expMark() string {
	return e.g.pickS([]string{"e", "E", "e+", "E+", "e0", "e+00"})
}

// a number lexeme denoting v in an unusual but integral way
func (e *vcEnc) intLexeme(dec string) string {
	g := e.g
	switch g.intn(7) {
	case 0:
		return dec + "." + strings.Repeat("0", 1+g.intn(3))
	case 1:
		m, k := vcTrimZeros(dec)
		return m + e.expMark() + strconv.Itoa(k)
	case 2:
		j := 1 + g.intn(3)
		if dec == "0" {
			return "0e-" + strconv.Itoa(j)
		}
		return dec + strings.Repeat("0", j) + g.pickS([]string{"e-", "E-", "e-0"}) + strconv.Itoa(j)
	case 3:
		if len(dec) > 1 {
			return dec[:1] + "." + dec[1:] + e.expMark() + strconv.Itoa(len(dec)-1)
		}
		return dec + "e0"
	case 4:
		z := g.intn(3)
		if len(dec)+z > 20 { // exponents above 20 on a 0.xxx mantissa are finding PJ3: only in the Q stream
			z = 0
		}
		return "0." + strings.Repeat("0", z) + dec + "e" + strconv.Itoa(len(dec)+z)
	case 5:
		if dec == "0" {
			return g.pickS([]string{"-0", "-0.0", "0e99999999999", "-0e5", "0.000", "0E-7"})
		}
		return dec + ".0e0"
	}
	return dec
}

var vcBadNumStrings = []string{"", " ", "abc", "0x1F", "+5", "05", "1.", ".5", "NaN", "Infinity", "1e", "1e+", "--1", "1 ", " 1",
	"1 ", "\t1", "true", "null", "1.5", "-1", "1e-1", "4294967296", "18446744073709551616", "1e20", "99999999999999999999999"}

func (e *vcEnc) uintVal(v uint64, bits int) *vcJSON {
	g := e.g
	dec := strconv.FormatUint(v, 10)
	if g.chance(30) { // wrong on purpose (or at least unusual)
		switch g.intn(9) {
		case 0:
			return vcNum("-" + dec)
		case 1:
			return vcNum(dec + ".5")
		case 2:
			if bits == 32 {
				return vcNum(strconv.FormatUint(v+1<<32, 10))
			}
			return vcNum(g.pickS([]string{"18446744073709551616", "1e20", "28446744073709551615", "184467440737095516150e-1"}))
		case 3:
			return vcStr(g.pickS(vcBadNumStrings))
		case 4:
			return vcBool(g.intn(2) == 0)
		case 5:
			return vcArr(vcNum(dec))
		case 6:
			o := vcObj()
			if g.intn(2) == 0 {
				o.add("value", vcNum(dec))
			}
			return o
		case 7:
			return vcNum(g.pickS([]string{"1e19", "1e10", "4294967295e0", "4294967296", "42949672960e-1", "0.1e1", "10e-1", "10e-2", "1.50e1",
				"1e-0", "0.0000000001e10", "1e2147483648", "1e-2147483649", "0e2147483648", "1.0e+0019"}))
		case 8:
			return vcNull()
		}
	}
	switch k := g.intn(10); {
	case k < 5:
		if bits == 64 && g.intn(2) == 0 {
			return vcStr(dec)
		}
		return vcNum(dec)
	case k < 7:
		return vcStr(dec)
	case k < 9:
		return vcNum(e.intLexeme(dec))
	}
	return vcStr(e.intLexeme(dec))
}

func (e *vcEnc) enumVal(v int32, names map[int32]string) *vcJSON {
	g := e.g
	dec := strconv.FormatInt(int64(v), 10)
	if g.chance(25) {
		switch g.intn(7) {
		case 0:
			return vcStr(dec) // numeric strings are not enum values
		case 1:
			return vcStr(g.pickS([]string{"round_robin", "Bind", "", "UNKNOWN", "BIND ", " BIND", "ROUND_ROBIN\x00"}))
		case 2:
			return vcNum(g.pickS([]string{"2147483648", "-2147483649", "1.5", "1e10", "4294967295"}))
		case 3:
			return vcBool(true)
		case 4:
			return vcArr()
		case 5:
			return vcNull()
		case 6:
			return vcStr(g.pickS([]string{"BOUND", "BIND", "UNBIND", "UNSPECIFIED", "LEAST_ACTIVE_STREAMS", "ROUND_ROBIN"}))
		}
	}
	if n, ok := names[v]; ok && g.intn(3) != 0 {
		return vcStr(n)
	}
	if v >= 0 && g.intn(3) == 0 {
		return vcNum(e.intLexeme(dec))
	}
	return vcNum(dec)
}

func (e *vcEnc) strVal(s string) *vcJSON {
	if e.g.chance(40) {
		switch e.g.intn(4) {
		case 0:
			return vcNum("5")
		case 1:
			return vcBool(false)
		case 2:
			return vcArr(vcStr(s))
		case 3:
			return vcNull()
		}
	}
	return vcStr(s)
}

func (e *vcEnc) name(jsonName, protoName string) string {
	if e.g.intn(3) == 0 {
		return protoName
	}
	return jsonName
}

var vcBindNames = map[int32]string{0: "UNSPECIFIED", 1: "LEAST_ACTIVE_STREAMS", 2: "ROUND_ROBIN"}
var vcCmdNames = map[int32]string{0: "BOUND", 1: "BIND", 2: "UNBIND"}

// zero-valued fields are usually left out, sometimes written explicitly or as null
func (e *vcEnc) keep(isZero bool) int { // 0 omit, 1 value, 2 null
	if !isZero {
		return 1
	}
	switch k := e.g.intn(10); {
	case k < 6:
		return 0
	case k < 8:
		return 1
	}
	return 2
}

func (e *vcEnc) put(o *vcJSON, how int, k string, v func() *vcJSON) {
	switch how {
	case 1:
		o.add(k, v())
	case 2:
		o.add(k, vcNull())
	}
}

func (e *vcEnc) pool(p *pb.ChannelPoolConfig) *vcJSON {
	o := vcObj()
	e.put(o, e.keep(p.MaxSize == 0), e.name("maxSize", "max_size"), func() *vcJSON { return e.uintVal(uint64(p.MaxSize), 32) })
	e.put(o, e.keep(p.IdleTimeout == 0), e.name("idleTimeout", "idle_timeout"), func() *vcJSON { return e.uintVal(p.IdleTimeout, 64) })
	e.put(o, e.keep(p.MaxConcurrentStreamsLowWatermark == 0), e.name("maxConcurrentStreamsLowWatermark", "max_concurrent_streams_low_watermark"),
		func() *vcJSON { return e.uintVal(uint64(p.MaxConcurrentStreamsLowWatermark), 32) })
	e.put(o, e.keep(p.MinSize == 0), e.name("minSize", "min_size"), func() *vcJSON { return e.uintVal(uint64(p.MinSize), 32) })
	e.put(o, e.keep(!p.FallbackToReady), e.name("fallbackToReady", "fallback_to_ready"), func() *vcJSON {
		if e.g.chance(30) {
			return []*vcJSON{vcStr("true"), vcNum("1"), vcNum("0"), vcStr(""), vcArr(vcBool(true))}[e.g.intn(5)]
		}
		return vcBool(p.FallbackToReady)
	})
	e.put(o, e.keep(p.UnresponsiveDetectionMs == 0), e.name("unresponsiveDetectionMs", "unresponsive_detection_ms"),
		func() *vcJSON { return e.uintVal(uint64(p.UnresponsiveDetectionMs), 32) })
	e.put(o, e.keep(p.UnresponsiveCalls == 0), e.name("unresponsiveCalls", "unresponsive_calls"),
		func() *vcJSON { return e.uintVal(uint64(p.UnresponsiveCalls), 32) })
	e.put(o, e.keep(p.BindPickStrategy == 0), e.name("bindPickStrategy", "bind_pick_strategy"),
		func() *vcJSON { return e.enumVal(int32(p.BindPickStrategy), vcBindNames) })
	return o
}

func (e *vcEnc) aff(a *pb.AffinityConfig) *vcJSON {
	o := vcObj()
	e.put(o, e.keep(a.Command == 0), "command", func() *vcJSON { return e.enumVal(int32(a.Command), vcCmdNames) })
	e.put(o, e.keep(a.AffinityKey == ""), e.name("affinityKey", "affinity_key"), func() *vcJSON { return e.strVal(a.AffinityKey) })
	return o
}

func (e *vcEnc) method(m *pb.MethodConfig) *vcJSON {
	o := vcObj()
	if m == nil {
		return o
	}
	e.put(o, e.keep(len(m.Name) == 0), "name", func() *vcJSON {
		a := vcArr()
		for _, n := range m.Name {
			a.arr = append(a.arr, e.strVal(n))
		}
		if e.g.chance(40) {
			return []*vcJSON{vcStr("a"), vcObj(), vcArr(vcArr(vcStr("a")))}[e.g.intn(3)]
		}
		return a
	})
	if m.Affinity != nil {
		o.add("affinity", e.aff(m.Affinity))
	} else if e.g.chance(5) {
		o.add("affinity", vcNull())
	}
	return o
}

func (e *vcEnc) cfg(c *pb.ApiConfig) *vcJSON {
	o := vcObj()
	if c.ChannelPool != nil {
		v := e.pool(c.ChannelPool)
		if e.g.chance(60) {
			v = []*vcJSON{vcArr(), vcNum("1"), vcStr("x"), vcBool(true), vcArr(v)}[e.g.intn(5)]
		}
		o.add(e.name("channelPool", "channel_pool"), v)
	} else if e.g.chance(5) {
		o.add(e.name("channelPool", "channel_pool"), vcNull())
	}
	e.put(o, e.keep(len(c.Method) == 0), "method", func() *vcJSON {
		a := vcArr()
		for _, m := range c.Method {
			a.arr = append(a.arr, e.method(m))
		}
		if e.g.chance(40) {
			a.arr = append(a.arr, []*vcJSON{vcNull(), vcNum("1"), vcArr(), vcStr("m")}[e.g.intn(4)])
		}
		if e.g.chance(60) {
			return []*vcJSON{vcObj(), vcStr("m"), vcNum("0")}[e.g.intn(3)]
		}
		return a
	})
	return o
}

// every object in the tree, the root first
func vcObjects(j *vcJSON, acc []*vcJSON) []*vcJSON {
	if j.kind == 'O' {
		acc = append(acc, j)
	}
	for _, x := range j.arr {
		acc = vcObjects(x, acc)
	}
	for _, x := range j.vals {
		acc = vcObjects(x, acc)
	}
	return acc
}

var vcAltName = map[string]string{
	"channelPool": "channel_pool", "maxSize": "max_size", "idleTimeout": "idle_timeout",
	"maxConcurrentStreamsLowWatermark": "max_concurrent_streams_low_watermark", "minSize": "min_size",
	"fallbackToReady": "fallback_to_ready", "unresponsiveDetectionMs": "unresponsive_detection_ms",
	"unresponsiveCalls": "unresponsive_calls", "bindPickStrategy": "bind_pick_strategy", "affinityKey": "affinity_key",
}

func vcAlt(k string) string {
	if a, ok := vcAltName[k]; ok {
		return a
	}
	for j, p := range vcAltName {
		if p == k {
			return j
		}
	}
	return k
}

// structural mutations of an encoded config
func vcMutateAST(g *vcRng, root *vcJSON) *vcJSON {
	objs := vcObjects(root, nil)
	if len(objs) == 0 {
		return root
	}
	o := objs[g.intn(len(objs))]
	switch g.intn(9) {
	case 0, 1: // shuffle the members
		for i := len(o.keys) - 1; i > 0; i-- {
			k := g.intn(i + 1)
			o.keys[i], o.keys[k] = o.keys[k], o.keys[i]
			o.vals[i], o.vals[k] = o.vals[k], o.vals[i]
		}
	case 2: // repeat a member under the same name
		if len(o.keys) > 0 {
			i := g.intn(len(o.keys))
			o.keys = append(o.keys, o.keys[i])
			o.vals = append(o.vals, o.vals[i])
		}
	case 3: // repeat a member under its other name, sometimes as null
		if len(o.keys) > 0 {
			i := g.intn(len(o.keys))
			v := o.vals[i]
			if g.intn(2) == 0 {
				v = vcNull()
			}
			o.keys = append(o.keys, []byte(vcAlt(string(o.keys[i]))))
			o.vals = append(o.vals, v)
			if g.intn(2) == 0 { // null first
				n := len(o.keys) - 1
				o.keys[i], o.keys[n] = o.keys[n], o.keys[i]
				o.vals[i], o.vals[n] = o.vals[n], o.vals[i]
			}
		}
	case 4: // unknown member
		k := g.pickS([]string{"bogus", "MaxSize", "maxsize", "max-size", "Method", "channelpool", "", "[x]", "@type", "name ", "maxSize\x00",
			"idle_Timeout", "affinitykey", "commands", "methods"})
		v := []*vcJSON{vcNull(), vcNum("1"), vcStr("x"), vcObj(), vcArr()}[g.intn(5)]
		at := g.intn(len(o.keys) + 1)
		o.keys = append(o.keys, nil)
		o.vals = append(o.vals, nil)
		copy(o.keys[at+1:], o.keys[at:])
		copy(o.vals[at+1:], o.vals[at:])
		o.keys[at], o.vals[at] = []byte(k), v
	case 5: // a member of one message inside another
		k := g.pickS([]string{"maxSize", "name", "affinity", "command", "method", "channelPool", "affinityKey", "min_size"})
		o.add(k, []*vcJSON{vcNum("1"), vcArr(), vcObj(), vcNull(), vcStr("BIND")}[g.intn(5)])
	case 6: // not an object at the top
		return []*vcJSON{vcArr(), vcArr(root), vcNull(), vcNum("1"), vcStr("{}"), vcBool(true)}[g.intn(6)]
	case 7: // drop a member
		if len(o.keys) > 0 {
			i := g.intn(len(o.keys))
			o.keys = append(o.keys[:i], o.keys[i+1:]...)
			o.vals = append(o.vals[:i], o.vals[i+1:]...)
		}
	case 8: // replace a value by null
		if len(o.keys) > 0 {
			o.vals[g.intn(len(o.keys))] = vcNull()
		}
	}
	return root
}

func vcGenAST(g *vcRng) *vcJSON {
	e := &vcEnc{g: g}
	root := e.cfg(vcGenCfg(g, false))
	for g.intn(4) == 0 {
		root = vcMutateAST(g, root)
	}
	return root
}

// inputs shaped like the known findings (see Monitors.v: pj1, pj2, pj3)
func vcGenQuirk(g *vcRng) *vcJSON {
	field := g.pickS([]string{"maxSize", "minSize", "max_size", "idleTimeout", "unresponsiveCalls", "maxConcurrentStreamsLowWatermark"})
	v := strconv.Itoa([]int{0, 1, 2, 3, 10, 100, 4294967295}[g.intn(7)])
	var val *vcJSON
	switch g.intn(3) {
	case 0: // PJ1
		delim := g.pickS([]string{" ", ",", "]", "}", ":", "\"", "\t", "/", "[", "{", "#", "\n", "é", " ,"})
		junk := g.pickS([]string{"2", "x", "", "}", "\"", "1 2", "e5", "null", "é"})
		s := v + delim + junk
		if strings.TrimSpace(s) != s {
			s += "x"
		}
		val = vcStr(s)
	case 1: // PJ2
		val = vcNum(g.pickS([]string{v, v + ".0", v + ".50"}) + g.pickS([]string{"e", "E"}))
	case 2: // PJ3: 0.<zeros><d>e<exp> with exp > 20 denoting the small integer d*10^k
		d := strconv.Itoa(1 + g.intn(99))
		l := 19 + g.intn(5) // number of fraction digits
		k := g.intn(3)
		val = vcNum("0." + strings.Repeat("0", l-len(d)) + d + g.pickS([]string{"e", "E", "e+"}) + strconv.Itoa(l+k))
		if g.intn(3) == 0 {
			val = vcStr(string(val.raw))
		}
	}
	pool := vcObj()
	pool.add(field, val)
	if g.intn(2) == 0 {
		pool.add("fallbackToReady", vcBool(true))
	}
	root := vcObj()
	root.add("channelPool", pool)
	if g.intn(3) == 0 {
		m := vcObj()
		m.add("name", vcArr(vcStr("a")))
		root.add("method", vcArr(m))
	}
	return root
}

// --- malformed texts. Every class yields text that is not JSON (RFC 8259).
const vcNClasses = 16

func vcGenMalformed(g *vcRng, class int) []byte {
	c := vcGenCfg(g, false)
	if c.ChannelPool == nil {
		c.ChannelPool = &pb.ChannelPoolConfig{}
	}
	if c.ChannelPool.MaxSize == 0 {
		c.ChannelPool.MaxSize = 3
	}
	c.Method = append(c.Method, &pb.MethodConfig{Name: []string{"/pkg.Svc/Get", "b"}, Affinity: &pb.AffinityConfig{Command: 1, AffinityKey: "k"}})
	base := vcRenderJSON(vcCanonAST(c), 0)
	s := string(base)
	idx := func(sub string) []int {
		var at []int
		for i := 0; i+len(sub) <= len(s); i++ {
			if s[i:i+len(sub)] == sub {
				at = append(at, i)
			}
		}
		return at
	}
	// positions of structural characters outside strings
	structural := func(ch byte) []int {
		var at []int
		in := false
		for i := 0; i < len(s); i++ {
			switch {
			case in && s[i] == '\\':
				i++
			case s[i] == '"':
				in = !in
			case !in && s[i] == ch:
				at = append(at, i)
			}
		}
		return at
	}
	pick := func(at []int) int { return at[g.intn(len(at))] }
	switch class {
	case 0: // comma before a closing brace
		i := pick(structural('}'))
		return []byte(s[:i] + "," + s[i:])
	case 1: // comma before a closing bracket
		i := pick(structural(']'))
		return []byte(s[:i] + "," + s[i:])
	case 2: // missing colon
		i := pick(structural(':'))
		return []byte(s[:i] + s[i+1:])
	case 3: // missing comma
		i := pick(structural(','))
		if s[i-1] >= '0' && s[i-1] <= '9' && s[i+1] >= '0' && s[i+1] <= '9' {
			return []byte(s[:i] + " " + s[i+1:])
		}
		return []byte(s[:i] + s[i+1:])
	case 4: // truncated
		return []byte(s[:g.intn(len(s))])
	case 5: // something after the value
		return []byte(s + g.pickS([]string{"x", "}", "{}", ",", "1", "]", "null", " {}", "\n\"a\"", ":"}))
	case 6: // single quotes
		i := pick(idx("\"maxSize\""))
		return []byte(s[:i] + "'maxSize'" + s[i+9:])
	case 7: // unquoted key
		i := pick(idx("\"channelPool\""))
		return []byte(s[:i] + "channelPool" + s[i+13:])
	case 8: // not a number
		i := pick(idx("\"maxSize\":"))
		j := i + 10
		k := j
		for k < len(s) && s[k] != ',' && s[k] != '}' {
			k++
		}
		bad := g.pickS([]string{"01", "+1", ".5", "1.", "0x10", "1.e2", "--1", "1e+", "1e-", "0e+", "NaN", "Infinity", "-Infinity", "1_000",
			"1,000", "00", "-", "1.2.3", "1e2e3", "1e1.5", "0b1", "1f", "-.5", "+0", "1 2"})
		return []byte(s[:j] + bad + s[k:])
	case 9: // broken string
		i := pick(idx("/pkg.Svc/Get"))
		bad := g.pickS([]string{"\\x41", "\\u12G4", "\\u12", "\\", "\x01", "\n", "\t", "\xff", "\xc0\xaf", "\xed\xa0\x80", "\\ud83d", "\\udc00",
			"\\ude00\\ud83d", "\\ud83dx", "\\a", "\\'", "\\U0001F600", "\x00", "\xf4\x90\x80\x80", "\x80", "\xe2\x82"})
		return []byte(s[:i+4] + bad + s[i+4:])
	case 10: // misspelt literal
		i := pick(idx("\"maxSize\":"))
		j := i + 10
		k := j
		for k < len(s) && s[k] != ',' && s[k] != '}' {
			k++
		}
		return []byte(s[:j] + g.pickS([]string{"True", "FALSE", "Null", "nul", "tru", "nulll", "truefalse", "None", "undefined", "nil"}) + s[k:])
	case 11: // comments
		i := pick(structural(':'))
		return []byte(s[:i+1] + g.pickS([]string{"/* c */", "// c\n", "# c\n", "/**/"}) + s[i+1:])
	case 12: // nothing, or junk before the value
		return []byte(g.pickS([]string{"", " ", "\n\t", "\xef\xbb\xbf" + s, "\x00" + s, "=" + s, "json:" + s, "\xa0" + s, "\v" + s, "\f{}"}))
	case 13: // missing value or key
		return []byte(g.pickS([]string{"{\"channelPool\":}", "{\"channelPool\"}", "{:1}", "{\"method\":[,]}", "{\"method\":[{},,{}]}", "{,}", "{\"channelPool\":{\"maxSize\":}}",
			"{\"channelPool\":,\"method\":[]}", "{\"method\":[{\"name\":[\"a\",]}]}", "{\"a\"}", "{1:2}", "{null:1}", "{\"channelPool\"::{}}", "{\"channelPool\":{}:}"}))
	case 14: // wrong or unbalanced brackets
		return []byte(g.pickS([]string{"{\"method\":[}]", "(", "{\"channelPool\":{]}", "[}", "{]", "{\"method\":[{]}", "{{}}", "}", "]", "}{", "{\"channelPool\":{}}}", "{\"method\":[[]}",
			"{\"channelPool\":{\"maxSize\":1}", "{\"method\":[{\"name\":[\"a\"]}"}))
	case 15: // two members without separator / doubled separators
		return []byte(g.pickS([]string{"{\"channelPool\":{} \"method\":[]}", "{\"channelPool\":{},,\"method\":[]}", "{\"method\":[{} {}]}", "{\"channelPool\":{\"maxSize\":1 \"minSize\":2}}",
			"{\"channelPool\" {}}", "{\"method\":[\"a\" \"b\"]}", "{\"channelPool\":{\"maxSize\":1;\"minSize\":2}}", "{\"channelPool\"={}}"}))
	}
	return []byte("{")
}

// canonical AST of a config (what protojson.Marshal writes), built independently of protojson
func vcCanonAST(c *pb.ApiConfig) *vcJSON {
	o := vcObj()
	if p := c.ChannelPool; p != nil {
		po := vcObj()
		u32 := func(k string, v uint32) {
			if v != 0 {
				po.add(k, vcNum(strconv.FormatUint(uint64(v), 10)))
			}
		}
		u32("maxSize", p.MaxSize)
		if p.IdleTimeout != 0 {
			po.add("idleTimeout", vcStr(strconv.FormatUint(p.IdleTimeout, 10)))
		}
		u32("maxConcurrentStreamsLowWatermark", p.MaxConcurrentStreamsLowWatermark)
		u32("minSize", p.MinSize)
		if p.FallbackToReady {
			po.add("fallbackToReady", vcBool(true))
		}
		u32("unresponsiveDetectionMs", p.UnresponsiveDetectionMs)
		u32("unresponsiveCalls", p.UnresponsiveCalls)
		if v := int32(p.BindPickStrategy); v != 0 {
			if n, ok := vcBindNames[v]; ok {
				po.add("bindPickStrategy", vcStr(n))
			} else {
				po.add("bindPickStrategy", vcNum(strconv.Itoa(int(v))))
			}
		}
		o.add("channelPool", po)
	}
	if len(c.Method) > 0 {
		a := vcArr()
		for _, m := range c.Method {
			mo := vcObj()
			if m != nil {
				if len(m.Name) > 0 {
					na := vcArr()
					for _, n := range m.Name {
						na.arr = append(na.arr, vcStr(n))
					}
					mo.add("name", na)
				}
				if af := m.Affinity; af != nil {
					ao := vcObj()
					if v := int32(af.Command); v != 0 {
						if n, ok := vcCmdNames[v]; ok {
							ao.add("command", vcStr(n))
						} else {
							ao.add("command", vcNum(strconv.Itoa(int(v))))
						}
					}
					if af.AffinityKey != "" {
						ao.add("affinityKey", vcStr(af.AffinityKey))
					}
					mo.add("affinity", ao)
				}
			}
			a.arr = append(a.arr, mo)
		}
		o.add("method", a)
	}
	return o
}

// ---------------------------------------------------------------- case runners
type vcRun struct {
	w       *bufio.Writer
	stats   map[string]int
	genBugs []string
}

func (r *vcRun) bug(format string, a ...interface{}) {
	if len(r.genBugs) < 20 {
		r.genBugs = append(r.genBugs, fmt.Sprintf(format, a...))
	}
}

func (r *vcRun) parseCase(kind string, style uint64, ast *vcJSON) {
	text := vcRenderJSON(ast, style)
	// self-check of the harness: the text denotes the AST it was rendered from
	back, ok := vcParseText(text)
	if !ok || vcJSONTokens(back) != vcJSONTokens(ast) {
		r.bug("render/parse self-check failed for %s", vcJSONTokens(ast))
	}
	res := vcParse(text)
	fmt.Fprintf(r.w, "H %s %d %s ; %s ; T%s\n", kind, style, vcJSONTokens(ast), res, hex.EncodeToString(text))
	r.stats["kind "+kind]++
	if res == "-" {
		r.stats[kind+" rejected"]++
	} else {
		r.stats[kind+" accepted"]++
	}
	if json.Valid(text) {
		r.stats[kind+" text is RFC 8259 JSON"]++
	}
}

func (r *vcRun) malformedCase(class int, text []byte, generated bool) {
	if generated && class != 9 && json.Valid(text) {
		r.bug("malformed class %d produced valid JSON: %q", class, text)
		return
	}
	res := vcParse(text)
	fmt.Fprintf(r.w, "H X %d T%s ; %s ;\n", class, hex.EncodeToString(text), res)
	r.stats["kind X"]++
	r.stats[fmt.Sprintf("X class %02d", class)]++
	if res != "-" {
		r.stats["X accepted"]++
	}
}

func (r *vcRun) renderCase(c *pb.ApiConfig) {
	line := func() (s string) {
		defer func() {
			if rec := recover(); rec != nil {
				s = vcPanicCfg + " ; -"
			}
		}()
		text, err := protojson.Marshal(c)
		if err != nil {
			return "- ; -"
		}
		ast, ok := vcParseText(text)
		if !ok {
			return vcParse(text) + " ; -"
		}
		return vcParse(text) + " ; " + vcJSONTokens(ast)
	}()
	fmt.Fprintf(r.w, "H R %s ; %s\n", vcCfgTokens(c), line)
	r.stats["kind R"]++
}

type vcUpd struct {
	op    byte // U Z S
	mode  int
	naddr int
	fail  bool
	n     int  // S: how many connections
	ready bool // S: report Ready first
	cfg   *pb.ApiConfig
}

func vcB01(b bool) int {
	if b {
		return 1
	}
	return 0
}

func (r *vcRun) balancerCase(ops []vcUpd) {
	b := vcNewBal()
	fmt.Fprintf(r.w, "H B ; %d %d %d ;\n", defaultMinSize, defaultMaxSize, defaultMaxStreams)
	r.stats["kind B"]++
	inited, emptied := false, false
	for _, o := range ops {
		switch o.op {
		case 'U':
			was := len(b.gb.scRefs)
			if o.mode == 3 {
				fmt.Fprintf(r.w, "U 3 %d %d %s ; %s\n", o.naddr, vcB01(o.fail), vcCfgTokens(o.cfg), b.update(3, o.naddr, o.fail, o.cfg))
			} else {
				fmt.Fprintf(r.w, "U %d %d %d ; %s\n", o.mode, o.naddr, vcB01(o.fail), b.update(o.mode, o.naddr, o.fail, nil))
			}
			r.stats[fmt.Sprintf("B update mode %d", o.mode)]++
			if o.fail || o.naddr == 0 {
				r.stats["B update with SubConn creation refused"]++
			}
			if inited && was == 0 {
				r.stats["B update after the first, on an empty pool"]++
				emptied = true
			}
			if b.gb.cfg != nil {
				inited = true
			}
		case 'Z':
			fmt.Fprintf(r.w, "Z ; ; %s\n", b.mutateAll())
			r.stats["B mutate"]++
		case 'S':
			fmt.Fprintf(r.w, "S %d %d ; ; %s\n", o.n, vcB01(o.ready), b.shutdown(o.n, o.ready))
			r.stats["B shutdown"]++
		}
	}
	if emptied {
		r.stats["B histories with a later update on an empty pool"]++
	}
}

func (r *vcRun) gcpCase(c *pb.ApiConfig) {
	op := vcCfgTokens(c)
	fmt.Fprintf(r.w, "H G %s ; %s\n", op, vcGcp(c))
	r.stats["kind G"]++
}

func vcGenMode(g *vcRng) int {
	switch k := g.intn(20); {
	case k < 14:
		return 3
	case k < 15:
		return 0
	case k < 16:
		return 1
	case k < 17:
		return 2
	}
	return 4
}

func vcGenUpdate(g *vcRng) vcUpd {
	m := vcGenMode(g)
	u := vcUpd{op: 'U', mode: m, naddr: 1}
	if m == 3 {
		u.cfg = vcGenCfg(g, true)
	}
	switch g.intn(12) {
	case 0:
		u.naddr = 0
	case 1:
		u.fail = true
	case 2:
		u.naddr = 2
	}
	return u
}

func (r *vcRun) genBalancer(g *vcRng) {
	var ops []vcUpd
	shut := func() vcUpd {
		n := 1000 // all of them
		if g.intn(4) == 0 {
			n = 1 + g.intn(3)
		}
		return vcUpd{op: 'S', n: n, ready: g.intn(2) == 0}
	}
	switch g.intn(4) {
	case 0: // the pool is emptied between updates
		ops = append(ops, vcGenUpdate(g))
		for k := 1 + g.intn(3); k > 0; k-- {
			if g.intn(3) == 0 {
				ops = append(ops, vcUpd{op: 'Z'})
			}
			ops = append(ops, shut(), vcGenUpdate(g))
		}
	case 1: // connections cannot be created at first
		u := vcGenUpdate(g)
		if g.intn(2) == 0 {
			u.naddr, u.fail = 0, false
		} else {
			u.naddr, u.fail = 1, true
		}
		ops = append(ops, u)
		for k := 1 + g.intn(3); k > 0; k-- {
			ops = append(ops, vcGenUpdate(g))
			if g.intn(4) == 0 {
				ops = append(ops, shut())
			}
		}
	default: // any mix of updates, shutdowns and overwrites
		n := 1 + g.intn(6)
		for i := 0; i < n; i++ {
			ops = append(ops, vcGenUpdate(g))
			if g.intn(3) == 0 {
				ops = append(ops, vcUpd{op: 'Z'})
			}
			if g.intn(4) == 0 {
				ops = append(ops, shut())
			}
		}
	}
	if g.intn(2) == 0 {
		ops = append(ops, vcUpd{op: 'Z'})
	}
	r.balancerCase(ops)
}

func (r *vcRun) genOne(g *vcRng) {
	switch k := g.intn(1000); {
	case k < 440:
		style := g.next() | 1
		if g.intn(4) == 0 {
			style = 0
		}
		r.parseCase("P", style, vcGenAST(g))
	case k < 455:
		r.parseCase("Q", g.next()&^1, vcGenQuirk(g)) // even style: compact or spaced, never 1-bit collisions with P
	case k < 600:
		class := g.intn(vcNClasses)
		r.malformedCase(class, vcGenMalformed(g, class), true)
	case k < 750:
		r.renderCase(vcGenCfg(g, false))
	case k < 950:
		r.genBalancer(g)
	default:
		if g.chance(8) {
			r.gcpCase(nil)
		} else {
			r.gcpCase(vcGenCfg(g, true))
		}
	}
}

// ---------------------------------------------------------------- replay of *.hist
func (r *vcRun) replay(lines []string) {
	var ops []vcUpd
	inB := false
	flush := func() {
		if inB {
			r.balancerCase(ops)
		}
		inB, ops = false, nil
	}
	for _, raw := range lines {
		line := raw
		if i := strings.IndexByte(line, ';'); i >= 0 {
			line = line[:i]
		}
		f := strings.Fields(line)
		if len(f) == 0 || strings.HasPrefix(f[0], "#") {
			continue
		}
		t := &vcToks{t: f}
		switch t.next() {
		case "H":
			flush()
			switch kind := t.next(); kind {
			case "P", "Q":
				style := t.unum()
				ast := vcParseJSONTokens(t)
				if !t.bad && t.i == len(t.t) {
					r.parseCase(kind, style, ast)
				} else {
					r.bug("bad %s line: %s", kind, raw)
				}
			case "X":
				class := int(t.num())
				text := t.hexAfter('T')
				if !t.bad {
					r.malformedCase(class, text, false)
				} else {
					r.bug("bad X line: %s", raw)
				}
			case "R":
				c := vcParseCfgTokens(t)
				if !t.bad {
					r.renderCase(c)
				} else {
					r.bug("bad R line: %s", raw)
				}
			case "B":
				inB = true
			case "G":
				c := vcParseOptCfgTokens(t)
				if !t.bad {
					r.gcpCase(c)
				} else {
					r.bug("bad G line: %s", raw)
				}
			default:
				r.bug("unknown case kind: %s", raw)
			}
		case "U":
			if !inB {
				continue
			}
			m := int(t.num())
			u := vcUpd{op: 'U', mode: m, naddr: int(t.num()), fail: t.num() != 0}
			if m == 3 {
				u.cfg = vcParseCfgTokens(t)
				if u.cfg != nil && u.cfg.GetChannelPool().GetMinSize() > 4096 {
					t.bad = true // would create that many fake connections
				}
			}
			if !t.bad && m >= 0 && m <= 4 && u.naddr >= 0 && u.naddr <= 8 {
				ops = append(ops, u)
			} else {
				r.bug("bad U line: %s", raw)
			}
		case "Z":
			if inB {
				ops = append(ops, vcUpd{op: 'Z'})
			}
		case "S":
			if !inB {
				continue
			}
			n := int(t.num())
			rd := t.num() != 0
			if !t.bad {
				ops = append(ops, vcUpd{op: 'S', n: n, ready: rd})
			} else {
				r.bug("bad S line: %s", raw)
			}
		}
	}
	flush()
}

func vcHistFiles(spec string) []string {
	var out []string
	for _, p := range strings.Split(spec, ":") {
		if p == "" {
			continue
		}
		st, err := os.Stat(p)
		if err != nil {
			continue
		}
		if st.IsDir() {
			m, _ := filepath.Glob(filepath.Join(p, "*.hist"))
			sort.Strings(m)
			out = append(out, m...)
		} else {
			out = append(out, p)
		}
	}
	return out
}

func TestMain(m *testing.M) {
	grpclog.SetLoggerV2(grpclog.NewLoggerV2(ioutil.Discard, ioutil.Discard, ioutil.Discard))
	vcOrig = balancer.Get(Name)
	os.Exit(m.Run())
}

func TestVerifConfig(t *testing.T) {
	out := os.Getenv("VERIF_OUT")
	if out == "" {
		t.Skip("VERIF_OUT not set")
	}
	if vcOrig == nil {
		t.Fatalf("balancer %q is not registered", Name)
	}
	if _, ok := vcOrig.(balancer.ConfigParser); !ok {
		t.Fatalf("registered builder does not implement balancer.ConfigParser")
	}
	vcTheSpy = &vcSpy{orig: vcOrig}
	balancer.Register(vcTheSpy)

	f, err := os.Create(out)
	if err != nil {
		t.Fatal(err)
	}
	defer f.Close()
	r := &vcRun{w: bufio.NewWriterSize(f, 1<<20), stats: map[string]int{}}
	defer r.w.Flush()

	for _, p := range vcHistFiles(os.Getenv("VERIF_HIST")) {
		b, err := ioutil.ReadFile(p)
		if err != nil {
			continue
		}
		r.replay(strings.Split(string(b), "\n"))
	}
	seed, _ := strconv.ParseUint(os.Getenv("VERIF_SEED"), 10, 64)
	n, _ := strconv.Atoi(os.Getenv("VERIF_N"))
	g := &vcRng{s: seed*0x9E3779B97F4A7C15 + 0xC17}
	for i := 0; i < n; i++ {
		r.genOne(g)
	}

	keys := make([]string, 0, len(r.stats))
	for k := range r.stats {
		keys = append(keys, k)
	}
	sort.Strings(keys)
	// go test shows a passing test's stderr only with -v: keep a copy next to the trace
	var dist bytes.Buffer
	fmt.Fprintf(&dist, "config harness: input distribution (seed %d, n %d)\n", seed, n)
	for _, k := range keys {
		fmt.Fprintf(&dist, "  %-32s %d\n", k, r.stats[k])
	}
	os.Stderr.Write(dist.Bytes())
	ioutil.WriteFile(out+".dist", dist.Bytes(), 0644)
	for _, b := range r.genBugs {
		fmt.Fprintf(os.Stderr, "  HARNESS BUG: %s\n", b)
	}
	if len(r.genBugs) > 0 {
		r.w.Flush()
		t.Fatalf("%d harness self-check failure(s), first: %s", len(r.genBugs), r.genBugs[0])
	}
}
